"""CLI:  check <PROPERTY> --tier quick|thorough    (see /verif/MANIFEST.json)

exit 0  property held on everything explored (KNOWN-FINDING lines may be printed)
exit 1  violation; a line  VIOLATION property=<id> replay=<path>  is printed after the minimised
        plan reproduced in a fresh interpreter
exit 2  harness error (crash of the machinery, determinism leak, budget kill); nothing is claimed
"""
import argparse, json, os, subprocess, sys, time

from .core import env


def _fresh_digests(prop, tier, base_seed, indices, hashseed):
    """Re-execute runs in a fresh interpreter under another PYTHONHASHSEED and one worker."""
    e = dict(os.environ)
    e["PYTHONHASHSEED"] = str(hashseed)
    cmd = [sys.executable, "-m", "ppsim.replay", "--digests", prop, tier, str(base_seed),
           ",".join(str(i) for i in indices)]
    p = subprocess.run(cmd, cwd=env.VERIF, env=e, capture_output=True, text=True, timeout=900)
    if p.returncode != 0:
        raise RuntimeError("digest subprocess failed: " + p.stderr[-2000:])
    return {int(k): v for k, v in json.loads(p.stdout.strip().splitlines()[-1]).items()}


def main(argv=None):
    ap = argparse.ArgumentParser()
    ap.add_argument("prop")
    ap.add_argument("--tier", default=os.environ.get("VERIF_TIER", "quick"), choices=["quick", "thorough"])
    ap.add_argument("--runs", type=int, default=0)
    ap.add_argument("--wall", type=float, default=0)
    ap.add_argument("--no-evidence", action="store_true")
    ap.add_argument("--no-selftest", action="store_true")
    a = ap.parse_args(argv)
    if os.environ.get("PYTHONHASHSEED") != "0":
        os.environ["PYTHONHASHSEED"] = "0"
        os.execv(sys.executable, [sys.executable, "-m", "ppsim.check"] + (argv or sys.argv[1:]))
    env.setup()
    from .core import runner, shrink, findings, evidence, rng
    from .core.outcome import VIOLATION
    prop, tier = a.prop, a.tier
    base_seed = int(os.environ.get("VERIF_SEED", "0") or 0)
    eng_name = runner.PROP_ENGINE[prop]
    eng = runner.engine(eng_name)
    budget = eng.BUDGET[prop][tier] if isinstance(eng.BUDGET.get(prop), dict) else eng.BUDGET[tier]
    n_runs = a.runs or budget["runs"]
    wall = a.wall or budget["wall"]
    t0 = time.time()
    print("ppsim check property=%s engine=%s tier=%s VERIF_SEED=%d runs<=%d wall<=%ds repo=%s"
          % (prop, eng_name, tier, base_seed, n_runs, wall, env.REPO), flush=True)
    n_self = 0 if a.no_selftest else (8 if tier == "quick" else 32)
    want = list(range(min(n_self, n_runs)))
    agg = runner.run_batch(eng_name, prop, tier, base_seed, n_runs, wall, want_digests=want)
    status = 0
    lines = []
    # ---- harness errors
    if agg["harness"]:
        idx, seed, plan, detail = agg["harness"][0]
        print("HARNESS-ERROR property=%s runs_failed=%d first_index=%s seed=%s\n%s"
              % (prop, len(agg["harness"]), idx, seed, detail), flush=True)
        status = 2
    harness_only = status == 2      # so far the only reason for exit 2 is a run in which the machinery itself raised
    # ---- determinism self-test: same seeds, fresh interpreter, other hash seed, one worker
    selftest = {"runs": 0, "mismatch": 0, "hashseeds": [0, 1]}
    selftest_bad = []
    if want and status == 0:
        try:
            d2 = _fresh_digests(prop, tier, base_seed, want, 1)
            selftest["runs"] = len(d2)
            bad = [i for i in want if agg["digests"].get(i) != d2.get(i)]
            selftest["mismatch"] = len(bad)
            if bad:
                # decided further down: if violations are confirmed by fresh replays, the code under test (not the harness)
                # is what carries state from run to run, and the violations take precedence
                selftest_bad = bad
        except Exception as e:
            print("HARNESS-ERROR property=%s determinism self-test failed to run: %r" % (prop, e), flush=True)
            status = 2
    # ---- violations: classify, shrink, write replay, confirm in a fresh interpreter
    known = findings.known_for(prop)
    known_hit = {}
    new_classes = {}
    for idx, seed, plan, od in agg["viol"]:
        sig = "%s:%s:%s" % (prop, od["oracle"], od.get("key", ""))
        if sig in known:
            known_hit[sig] = known_hit.get(sig, 0) + 1
            continue
        new_classes.setdefault(sig, []).append((idx, seed, plan, od))
    replays = []
    for sig in sorted(new_classes):
        print("class %s: %d run(s)" % (sig, len(new_classes[sig])))
    for sig in sorted(new_classes):
        cases = [c for c in new_classes[sig] if c[2] is not None]
        if not cases or len(replays) >= 3:
            continue
        idx, seed, plan, od = sorted(cases, key=lambda c: c[0])[0]
        history = []
        o0 = runner.run_plan_iso(eng, plan, prop)
        if o0.status == VIOLATION and o0.oracle == od["oracle"]:
            small, info = shrink.shrink(eng, plan, prop, od["oracle"])
            out = runner.run_plan_iso(eng, small, prop)
        else:
            # The run does not fail in a pristine process: what it saw was left behind by the runs before it in its chunk
            # (the code under test keeps state in the process).  Replay the chunk's history in one process and minimise it
            # by dropping earlier runs.
            lo = od.get("chunk_lo", idx)
            plans = [eng.generate(runner.run_seed(prop, tier, base_seed, k), tier, prop) for k in range(lo, idx + 1)]
            keep = plans[:]
            out = runner.run_history_iso(eng, keep, prop)
            if out.status == VIOLATION and out.oracle == od["oracle"]:
                i = 0
                while i < len(keep) - 1:
                    cand = keep[:i] + keep[i + 1:]
                    o2 = runner.run_history_iso(eng, cand, prop)
                    if o2.status == VIOLATION and o2.oracle == od["oracle"]:
                        keep = cand
                    else:
                        i += 1
                out = runner.run_history_iso(eng, keep, prop)
            history, small = keep[:-1], keep[-1]
            info = {"executions": len(plans), "ops_before": len(plan.get("ops", [])), "ops_after": len(small.get("ops", [])),
                    "faults_before": len(plan.get("faults", [])), "faults_after": len(small.get("faults", [])),
                    "history_runs_before": len(plans) - 1, "history_runs_after": len(history)}
        sig2 = "%s:%s:%s" % (prop, out.oracle, out.key)
        if out.status == VIOLATION and sig2 in known:
            # the minimised form is a listed finding: the original was that finding plus noise
            known_hit[sig2] = known_hit.get(sig2, 0) + len(new_classes[sig])
            continue
        path = os.path.join(env.VERIF, "out", "replays", prop, "%s-%d-%d.json" % (tier, base_seed, idx))
        os.makedirs(os.path.dirname(path), exist_ok=True)
        rec = {"property": prop, "engine": eng_name, "verif_seed": base_seed, "tier": tier, "index": idx,
               "run_seed": seed, "oracle": out.oracle, "key": out.key, "step": out.step,
               "detail": out.detail, "digest": out.digest, "shrink": info, "plan": small, "history": history,
               "original_plan": plan, "replay": "cd /verif && bin/replay %s" % path}
        with open(path, "w") as f:
            json.dump(rec, f, indent=1, sort_keys=True)
        p = subprocess.run([sys.executable, "-m", "ppsim.replay", path], cwd=env.VERIF,
                           capture_output=True, text=True, timeout=900)
        same_digest = ("digest=%s" % out.digest) in p.stdout
        same_class = ("oracle=%s key=%s " % (out.oracle, out.key)) in p.stdout
        if p.returncode == 1 and (same_digest or same_class):
            if not same_digest:
                # the violation reproduces in a fresh interpreter, though not bit for bit (a defect that corrupts
                # process-global state, or an exception whose text depends on the process): still a violation
                print("note: fresh replay of %s reproduces the violation class with a different event digest" % path)
            print("violation class %s: %d run(s); first index=%d seed=%d; minimised %d->%d ops, %d->%d faults%s"
                  % (sig2, len(new_classes[sig]), idx, seed, info["ops_before"], info["ops_after"],
                     info["faults_before"], info["faults_after"],
                     "; needs a process history of %d earlier run(s) (of %d in its chunk)" %
                     (info["history_runs_after"], info["history_runs_before"]) if history else ""))
            print("  oracle=%s step=%d %s" % (out.oracle, out.step, out.detail[:600]))
            print("VIOLATION property=%s replay=%s" % (prop, path), flush=True)
            replays.append(path)
            status = max(status, 1) if status != 2 else 2
        else:
            harness_only = False
            print("HARNESS-ERROR property=%s minimised plan %s did not reproduce in a fresh interpreter "
                  "(exit %d)\n%s" % (prop, path, p.returncode, (p.stdout + p.stderr)[-1500:]), flush=True)
            status = 2
    if status == 2 and harness_only and replays:
        # violations were confirmed by fresh replays; the runs in which the machinery raised are then most plausibly the
        # same defect reaching harness arithmetic (a NaN in a reference computation): the violations are the verdict
        print("note: %d run(s) raised inside the machinery; %d violation class(es) were confirmed by fresh replays and take "
              "precedence" % (len(agg["harness"]), len(replays)), flush=True)
        status = 1
    if selftest_bad:
        if replays:
            print("note: determinism self-test: digests of runs %s differ between the pool and a fresh interpreter; violations were "
                  "confirmed by fresh replays, so the state carried between runs lives in the code under test" % selftest_bad[:8], flush=True)
        else:
            print("HARNESS-ERROR property=%s determinism self-test: digest mismatch at indices %s" % (prop, selftest_bad[:8]), flush=True)
            status = 2
    for sig in sorted(known):
        e = known[sig]
        if known_hit.get(sig):
            print("KNOWN-FINDING: property=%s %s [signature %s, %d run(s) this time]"
                  % (prop, e["what"], sig, known_hit[sig]), flush=True)
        else:
            print("KNOWN-FINDING: property=%s %s [signature %s, not reached by this run's seeds]"
                  % (prop, e["what"], sig), flush=True)
    wall_s = time.time() - t0
    if not a.no_evidence:
        evidence.write(prop, tier, base_seed, eng, agg, selftest, known_hit, replays, wall_s, status)
    rph = agg["runs"] / max(agg["wall_s"], 1e-9) * 3600
    print("summary property=%s runs=%d (planned %d) ok=%d violations=%d known=%d harness=%d nontrivial=%d "
          "distinct=%d faults=%s sim_time=%d %s runs/h=%.0f wall=%.1fs selftest=%d/%d"
          % (prop, agg["runs"], agg["planned"], agg["ok"], len(agg["viol"]) - sum(known_hit.values()),
             sum(known_hit.values()), len(agg["harness"]), agg["nontrivial"], len(agg["sigs"]),
             json.dumps(agg["faults"], sort_keys=True), agg["sim_time"], eng.SIM_UNIT, rph, wall_s,
             selftest["runs"] - selftest["mismatch"], selftest["runs"]), flush=True)
    zero = [p for p in getattr(eng, "PROBES", {}).get(prop, []) if not agg["probes"].get(p)]
    if zero:
        print("note: reach probes at zero in this run: %s" % zero)
    if status == 0 and agg["runs"] == 0:
        print("HARNESS-ERROR property=%s no run executed" % prop)
        status = 2
    return status


if __name__ == "__main__":
    sys.exit(main())
