"""evidence/<ID>.json writer.  Every number is measured on this run."""
import json, os
from .env import VERIF, REPO

FAULTS_ABSENT = ("message loss / duplication / reordering, partitions, disk errors, torn writes, wall-clock "
                 "skew, allocation failure, thread or task schedules: not present in pypose, never injected")


def write(prop, tier, seed, eng, agg, selftest, known_hit, replays, wall_s, status):
    d = eng.describe(prop)
    runs = agg["runs"]
    cov = {
        "evaluations": runs,
        "distinct_nontrivial": len(agg["sigs"]),
        "rule": d["rule"],
        "samples": agg["samples"][:3] if agg["samples"] else [{"note": "no sample recorded"}],
        "planned_runs": agg["planned"],
        "runs_ok": agg["ok"],
        "runs_nontrivial": agg["nontrivial"],
        "runs_with_fault_fired": agg["faulted_runs"],
        "runs_fault_free": runs - agg["faulted_runs"],
        "operations_executed": agg["ops"],
        "simulated_time": {"amount": agg["sim_time"], "unit": eng.SIM_UNIT},
        "runs_per_hour": round(runs / max(agg["wall_s"], 1e-9) * 3600),
        "seeds_per_hour": round(runs / max(agg["wall_s"], 1e-9) * 3600),
        "workers": agg["workers"],
        "cpu_seconds_in_workers": round(agg["cpu_s"], 1),
        "fault_kinds_fired": dict(sorted(agg["faults"].items())),
        "fault_kinds_available": d["fault_kinds"],
        "fault_kinds_not_applicable": FAULTS_ABSENT,
        "reach_probes": dict(sorted(agg["probes"].items())),
        "oracle_abstentions": dict(sorted(agg["abstain"].items())),
        "components_real": d["real"],
        "components_stub": d["stub"],
        "determinism_selftest": {"runs_reexecuted_in_fresh_interpreter": selftest["runs"],
                                 "digest_mismatches": selftest["mismatch"],
                                 "pythonhashseed_values": selftest["hashseeds"],
                                 "worker_counts": [agg["workers"], 1]},
        "violation_runs": len(agg["viol"]),
        "known_finding_runs": dict(sorted(known_hit.items())),
        "replay_files": replays,
        "harness_errors": len(agg["harness"]),
        "exit_status": status,
        "repo": REPO,
    }
    ev = {"property_id": prop, "tier": tier, "seed": int(seed), "level": d.get("level", "exploration"),
          "coverage": cov, "assumptions": d["assumptions"], "wall_s": round(wall_s, 2),
          "violations": len(agg["viol"]) - sum(known_hit.values())}
    os.makedirs(os.path.join(VERIF, "evidence"), exist_ok=True)
    path = os.path.join(VERIF, "evidence", "%s.json" % prop)
    tmp = path + ".tmp"
    with open(tmp, "w") as f:
        json.dump(ev, f, indent=1, sort_keys=True, default=str)
    os.replace(tmp, path)
    return path
