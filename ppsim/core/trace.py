"""Event log and digest of one simulated run.  Logging draws nothing and reads no clock."""
import hashlib, struct


class Trace:
    def __init__(self):
        self.h = hashlib.sha256()
        self.n = 0
        self.tail = []          # last few events, human readable, for reports

    def _feed(self, x):
        import torch
        if x is None:
            self.h.update(b"N")
        elif isinstance(x, bool):
            self.h.update(b"T" if x else b"F")
        elif isinstance(x, int):
            self.h.update(b"i" + str(x).encode())
        elif isinstance(x, float):
            self.h.update(b"f" + struct.pack("<d", x))
        elif isinstance(x, str):
            self.h.update(b"s" + x.encode())
        elif isinstance(x, (list, tuple)):
            self.h.update(b"[")
            for y in x:
                self._feed(y)
            self.h.update(b"]")
        elif isinstance(x, dict):
            self.h.update(b"{")
            for k in sorted(x):
                self._feed(k); self._feed(x[k])
            self.h.update(b"}")
        elif isinstance(x, torch.Tensor):
            t = x.detach()
            if hasattr(t, "tensor") and type(t) is not torch.Tensor:
                t = t.tensor()
            t = t.contiguous().cpu()
            self.h.update(b"t" + str(t.dtype).encode() + str(tuple(t.shape)).encode())
            self.h.update(t.numpy().tobytes())
        else:
            try:
                import numpy as np
                if isinstance(x, np.ndarray):
                    self.h.update(b"a" + str(x.dtype).encode() + str(x.shape).encode() + np.ascontiguousarray(x).tobytes())
                    return
                if isinstance(x, np.generic):
                    self._feed(x.item()); return
            except ImportError:
                pass
            self.h.update(b"r" + repr(x).encode())

    def ev(self, op, *payload, note=None):
        self.n += 1
        self.h.update(b"#" + str(self.n).encode())
        self._feed(op)
        for p in payload:
            self._feed(p)
        if note is not None:
            self.tail.append("%d %s %s" % (self.n, op, note))
            if len(self.tail) > 12:
                self.tail.pop(0)

    def digest(self):
        return self.h.hexdigest()[:24]
