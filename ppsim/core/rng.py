"""One integer decides everything.

VERIF_SEED -> run seed H(VERIF_SEED, property, tier, index) -> named sub-streams.  Named streams
keep the operation stream stable when the shrinker deletes a fault or an operation: data of an
operation is keyed by the operation's own id, never by its position."""
import hashlib, random


def H(*parts):
    """64-bit integer from the canonical string of the parts."""
    s = "\x1f".join(str(p) for p in parts).encode()
    return int.from_bytes(hashlib.sha256(s).digest()[:8], "big")


def stream(seed, *names):
    return random.Random(H(seed, *names))


def tgen(seed, *names):
    import torch
    g = torch.Generator(device="cpu")
    g.manual_seed(H(seed, *names) & 0x7FFFFFFFFFFFFFFF)
    return g


def randn(seed, names, shape, dtype=None, scale=1.0):
    """Tensor drawn from the named stream; always generated in float64 and then cast, so that
    the float32 and float64 variants of one plan see the same numbers up to rounding."""
    import torch
    t = torch.randn(tuple(shape), generator=tgen(seed, *names), dtype=torch.float64) * scale
    return t.to(dtype or torch.float64)


def rand(seed, names, shape, dtype=None, lo=0.0, hi=1.0):
    import torch
    t = torch.rand(tuple(shape), generator=tgen(seed, *names), dtype=torch.float64) * (hi - lo) + lo
    return t.to(dtype or torch.float64)


def loguniform(r, lo, hi):
    import math
    return math.exp(r.uniform(math.log(lo), math.log(hi)))
