"""Delta-debugging over a plan: faults first, then operations, then engine-specific simplifications.
A candidate is accepted iff executing it yields a violation of the same oracle."""
import copy, time
from .outcome import VIOLATION
from .runner import run_plan_iso as run_plan


def _same(out, oracle):
    return out.status == VIOLATION and out.oracle == oracle


def _ddmin_list(eng, plan, prop, key, oracle, budget):
    items = plan.get(key)
    if not items:
        return plan
    n = 2
    while len(plan[key]) >= 1 and budget["left"] > 0 and time.time() < budget["deadline"]:
        items = plan[key]
        size = max(1, len(items) // n)
        reduced = False
        for start in range(0, len(items), size):
            cand = copy.deepcopy(plan)
            cand[key] = items[:start] + items[start + size:]
            fix = getattr(eng, "repair", None)
            if fix:
                cand = fix(cand)
                if cand is None:
                    continue
            budget["left"] -= 1
            if _same(run_plan(eng, cand, prop), oracle):
                plan = cand
                n = max(n - 1, 2)
                reduced = True
                break
            if budget["left"] <= 0 or time.time() > budget["deadline"]:
                break
        if not reduced:
            if size == 1:
                break
            n = min(len(items), n * 2)
    return plan


def shrink(eng, plan, prop, oracle, max_exec=400, max_wall=45):
    budget = {"left": max_exec, "deadline": time.time() + max_wall}
    orig = copy.deepcopy(plan)
    for rounds in range(3):
        before = repr(plan)
        for key in getattr(eng, "SHRINK_LISTS", ("faults", "ops")):
            plan = _ddmin_list(eng, plan, prop, key, oracle, budget)
        simp = getattr(eng, "simplify", None)
        if simp:
            progress = True
            while progress and budget["left"] > 0 and time.time() < budget["deadline"]:
                progress = False
                for cand in simp(copy.deepcopy(plan)):
                    budget["left"] -= 1
                    if _same(run_plan(eng, cand, prop), oracle):
                        plan = cand
                        progress = True
                        break
                    if budget["left"] <= 0:
                        break
        if repr(plan) == before:
            break
    return plan, {"executions": max_exec - budget["left"], "ops_before": len(orig.get("ops", [])),
                  "ops_after": len(plan.get("ops", [])), "faults_before": len(orig.get("faults", [])),
                  "faults_after": len(plan.get("faults", []))}
