"""Result of executing one plan."""

OK, VIOLATION, HARNESS = "ok", "violation", "harness_error"


class Violation(Exception):
    """Raised by an engine oracle.  `oracle` is the class used for shrinking (a candidate is kept
    iff it fails the same oracle); `key` is the structural part of the known-finding signature."""
    def __init__(self, oracle, detail, step=-1, key=""):
        super().__init__("%s: %s" % (oracle, detail))
        self.oracle, self.detail, self.step, self.key = oracle, detail, step, key


class Outcome:
    __slots__ = ("status", "oracle", "key", "step", "detail", "digest", "faults", "probes", "sigs",
                 "nontrivial", "sim_time", "abstain", "ops", "faulted")

    def __init__(self):
        self.status, self.oracle, self.key, self.step, self.detail = OK, "", "", -1, ""
        self.digest = ""
        self.faults = {}        # fault kind -> times it actually fired
        self.probes = {}        # reach probe -> hits
        self.sigs = set()       # abstract signatures reached (distinct-state measure)
        self.nontrivial = False
        self.sim_time = 0       # in the engine's own unit
        self.abstain = {}       # oracle -> times it declined to judge (inconclusive)
        self.ops = 0
        self.faulted = False    # did any fault fire in this run

    def fault(self, kind, n=1):
        self.faults[kind] = self.faults.get(kind, 0) + n
        self.faulted = True

    def probe(self, name, n=1):
        self.probes[name] = self.probes.get(name, 0) + n

    def declined(self, oracle, n=1):
        self.abstain[oracle] = self.abstain.get(oracle, 0) + n

    def to_dict(self):
        return {"status": self.status, "oracle": self.oracle, "key": self.key, "step": self.step,
                "detail": self.detail, "digest": self.digest, "faults": dict(self.faults),
                "probes": dict(self.probes), "nsigs": len(self.sigs), "nontrivial": self.nontrivial,
                "sim_time": self.sim_time, "abstain": dict(self.abstain), "ops": self.ops}
