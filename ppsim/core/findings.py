"""Known findings: read-only at run time.  An entry suppresses only the exact signature it names."""
import json, os
from .env import VERIF

PATH = os.path.join(VERIF, "known_findings.json")


def load():
    if not os.path.exists(PATH):
        return []
    with open(PATH) as f:
        return json.load(f).get("findings", [])


def known_for(prop):
    return {e["key"]: e for e in load() if e.get("property") == prop and e.get("status") == "known"}
