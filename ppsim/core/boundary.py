"""Argument non-mutation over a whole run, observed at the boundary between a simulated caller and the library.

Every public callable of pypose outside pypose.lietensor (module constructors and calls, public methods, property
setters, module-level functions) is wrapped.  When such a callable is entered FROM HARNESS CODE (the caller's module is
ppsim.*) and no other boundary call is in progress, every tensor found in its arguments (lists, tuples and dicts are
walked) is recorded together with a copy.  The copies are compared with the live tensors when the call returns, at
every later boundary call and at the end of the run: a tensor the caller handed to a function without trailing
underscore must keep its values for as long as the caller holds it, whatever is called later on the same object.

Not recorded: nn.Parameter instances (optimizers are documented to update them), names ending in "_" (documented
in-place operations), names starting with "_".  When the simulated caller itself rewrites one of its tensors in place
(a receding-horizon shift, a model refreshed by system identification) it says so with refresh().

Nothing is patched unless install() is called; patchsim calls it inside the forked child that executes one run."""
import functools, sys, types
import torch

MON = None


def _raw(t):
    return t.tensor() if hasattr(t, "ltype") else t


def _walk(x, path, depth=0):
    if torch.is_tensor(x):
        if isinstance(x, torch.nn.Parameter) or x.numel() == 0:
            return
        yield path, x
    elif isinstance(x, (list, tuple)) and depth < 3:
        for i, y in enumerate(x):
            yield from _walk(y, "%s[%d]" % (path, i), depth + 1)
    elif isinstance(x, dict) and depth < 3:
        for k, y in x.items():
            yield from _walk(y, "%s[%r]" % (path, k), depth + 1)


class Monitor:
    def __init__(self):
        self.reg = []           # [raw tensor, copy, label, call number]
        self.calls = []         # labels of boundary calls, in order
        self.depth = 0
        self.findings = []      # (label of the recorded argument, call number, where the change was seen)
        self.active = True

    def _check(self, entries, where):
        for e in entries:
            t, snap, label, k = e
            if t.shape != snap.shape or not torch.equal(t, snap):
                self.findings.append((label, k, where))
                e[1] = t.detach().clone()       # report each change once

    def enter(self, label, a, kw):
        self._check(self.reg, "on entry to %s (boundary call #%d)" % (label, len(self.calls)))
        k = len(self.calls)
        self.calls.append(label)
        mine = []
        for path, t in list(_walk(a, "args")) + list(_walk(kw, "kwargs")):
            r = _raw(t).detach()
            mine.append([r, r.clone(), "%s %s" % (label, path), k])
        self.reg.extend(mine)
        return mine

    def leave(self, label, mine):
        self._check(mine, "when %s returned" % label)

    def end(self):
        self._check(self.reg, "at the end of the run (last boundary call: %s)" % (self.calls[-1] if self.calls else "-"))


def refresh(*ts):
    """The simulated caller has rewritten these tensors itself: take new copies of every recorded tensor sharing storage."""
    m = MON
    if m is None:
        return
    ptrs = set()
    for t in ts:
        if torch.is_tensor(t) and t.numel():
            ptrs.add(_raw(t).untyped_storage().data_ptr())
    for e in m.reg:
        if e[0].untyped_storage().data_ptr() in ptrs:
            e[1] = e[0].detach().clone()


def _wrap(fn, label):
    @functools.wraps(fn)
    def w(*a, **kw):
        m = MON
        if m is None or not m.active or m.depth:
            return fn(*a, **kw)
        f = sys._getframe(1)
        while f is not None and f.f_globals.get("__name__", "").startswith("torch."):
            f = f.f_back            # nn.Module.__setattr__ / __call__ plumbing, optimizer step hooks
        if f is None or not f.f_globals.get("__name__", "").startswith("ppsim."):
            return fn(*a, **kw)
        mine = m.enter(label, a, kw)
        m.depth += 1
        try:
            return fn(*a, **kw)
        finally:
            m.depth -= 1
            m.leave(label, mine)
    w.__ppsim_boundary__ = True
    return w


def _eligible(name):
    return not name.startswith("_") and not name.endswith("_")


def install():
    """Wrap the public surface of pypose (outside pypose.lietensor) in this process and start a Monitor."""
    global MON
    import pypose
    mods = [m for n, m in sorted(sys.modules.items()) if (n == "pypose" or n.startswith("pypose.")) and m is not None]
    classes, funcs = {}, {}
    for m in mods:
        for k, v in list(vars(m).items()):
            mod = getattr(v, "__module__", "") or ""
            if not mod.startswith("pypose.") or mod.startswith("pypose.lietensor") or mod.startswith("pypose.testing"):
                continue
            if isinstance(v, type):
                classes[id(v)] = v
            elif isinstance(v, types.FunctionType) and _eligible(k) and not getattr(v, "__ppsim_boundary__", False):
                funcs.setdefault(id(v), (v, []))[1].append((m, k))
    for v, places in funcs.values():
        w = _wrap(v, "%s.%s" % (v.__module__.replace("pypose.", "pp."), v.__name__))
        for m, k in places:
            setattr(m, k, w)
    for cls in classes.values():
        cname = cls.__name__
        for k, v in list(vars(cls).items()):
            if isinstance(v, types.FunctionType) and (k == "__init__" or _eligible(k)) and not getattr(v, "__ppsim_boundary__", False):
                if k == "forward":
                    continue        # reached through __call__
                setattr(cls, k, _wrap(v, "%s.%s" % (cname, k)))
            elif isinstance(v, property) and v.fset is not None and _eligible(k) and not getattr(v.fset, "__ppsim_boundary__", False):
                setattr(cls, k, property(v.fget, _wrap(v.fset, "%s.%s=" % (cname, k)), v.fdel, v.__doc__))
        if issubclass(cls, torch.nn.Module) and "__call__" not in vars(cls):
            setattr(cls, "__call__", _wrap(torch.nn.Module.__call__, "%s()" % cname))
    MON = Monitor()
    return MON
