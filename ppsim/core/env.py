"""Process set-up shared by every entry point: import pypose from the working tree under test,
pin the thread count, silence warnings.  Nothing here draws randomness or reads a clock."""
import os, sys, warnings

REPO = os.environ.get("VERIF_REPO", "/repo")
VERIF = os.path.dirname(os.path.dirname(os.path.dirname(os.path.abspath(__file__))))

_ready = False


def setup():
    """Idempotent.  Must run before the first torch op of the process."""
    global _ready
    if _ready:
        return
    os.environ.setdefault("OMP_NUM_THREADS", "1")
    os.environ.setdefault("MKL_NUM_THREADS", "1")
    os.environ["PYPOSE_VERIF"] = "1"          # guard name recorded in MANIFEST.hooks (no hook uses it)
    warnings.filterwarnings("ignore")
    if REPO not in sys.path[:1]:
        sys.path.insert(0, REPO)
    import torch
    torch.set_num_threads(1)
    try:
        torch.set_num_interop_threads(1)
    except RuntimeError:
        pass
    import pypose
    here = os.path.realpath(os.path.dirname(os.path.dirname(pypose.__file__)))
    assert here == os.path.realpath(REPO), "pypose imported from %s, expected %s" % (here, REPO)
    torch.set_printoptions(precision=17)
    _ready = True
