"""Execute plans: one at a time (replay, shrinking) or as a seeded batch on a process pool."""
import copy, faulthandler, importlib, json, os, sys, time, traceback
from concurrent.futures import ProcessPoolExecutor, as_completed
import multiprocessing as mp

from . import env, rng
from .outcome import Outcome, Violation, OK, VIOLATION, HARNESS
from .trace import Trace

ENGINES = {
    "ctrlsim": "ppsim.engines.ctrlsim",
    "imusim": "ppsim.engines.imusim",
    "clocksim": "ppsim.engines.clocksim",
    "lqrsim": "ppsim.engines.lqrsim",
    "filtersim": "ppsim.engines.filtersim",
    "optsim": "ppsim.engines.optsim",
    "groupsim": "ppsim.engines.groupsim",
    "patchsim": "ppsim.engines.patchsim",
}
PROP_ENGINE = {"C20": "ctrlsim", "C16": "imusim", "C15": "clocksim", "C14": "lqrsim", "C13": "filtersim",
               "C08": "optsim", "C07": "optsim", "C03": "groupsim", "C06": "patchsim"}

RUN_WALL_CAP = 300      # seconds; a run exceeding it kills the worker -> harness error, never exit 0


def engine(name):
    env.setup()
    return importlib.import_module(ENGINES[name])


def run_seed(prop, tier, base_seed, idx):
    return rng.H(base_seed, prop, tier, idx)


def run_plan(eng, plan, prop):
    """Pure function of (plan, code under test).  Never raises."""
    import torch
    out, tr = Outcome(), Trace()
    torch.manual_seed(rng.H(plan.get("seed", 0), "torch-global") & 0x7FFFFFFF)
    try:
        eng.execute(copy.deepcopy(plan), prop, out, tr)
    except Violation as v:
        out.status, out.oracle, out.key, out.step, out.detail = VIOLATION, v.oracle, v.key, v.step, v.detail
        tr.ev("violation", v.oracle, v.step)
    except Exception as e:
        # An exception that escapes from inside pypose (deepest pypose frame below the last harness frame) while
        # the harness was using a documented call is the library failing where the property promises a result:
        # a violation of the property's "<ID>.raises" oracle.  Anything else is trouble in the harness itself.
        tb = traceback.extract_tb(e.__traceback__)
        repo_pp = os.path.join(os.path.realpath(env.REPO), "pypose") + os.sep
        last_h = max([i for i, f in enumerate(tb) if os.sep + "ppsim" + os.sep in f.filename] or [-1])
        pp_frames = [f for f in tb[last_h + 1:] if os.path.realpath(f.filename).startswith(repo_pp)]
        if pp_frames and not isinstance(e, MemoryError):
            f = pp_frames[-1]
            out.status, out.oracle = VIOLATION, prop + ".raises"
            # where a RecursionError surfaces depends on the stack depth of the process, not on the plan
            out.key = "escaped:%s:%s" % (type(e).__name__, "" if isinstance(e, RecursionError) else f.name)
            out.detail = "%s: %s  (raised under %s:%d %s, called from %s)" % (
                type(e).__name__, str(e)[:300], os.path.relpath(f.filename, env.REPO), f.lineno, f.name,
                "%s:%d" % (os.path.basename(tb[last_h].filename), tb[last_h].lineno) if last_h >= 0 else "?")
            tr.ev("violation", out.oracle, type(e).__name__)
        else:
            out.status, out.oracle = HARNESS, "harness"
            out.detail = traceback.format_exc()[-3000:]
    out.digest = tr.digest()
    return out


def _in_child(fn):
    """Run fn() in a forked child of this process and return its (picklable) result; None if the child died."""
    import pickle
    rd, wr = os.pipe()
    pid = os.fork()
    if pid == 0:
        try:
            os.close(rd)
            res = fn()
            with os.fdopen(wr, "wb") as f:
                pickle.dump(res, f)
        finally:
            os._exit(0)
    os.close(wr)
    with os.fdopen(rd, "rb") as f:
        data = f.read()
    os.waitpid(pid, 0)
    return pickle.loads(data) if data else None


def _out_dict(out):
    return {k: getattr(out, k) for k in Outcome.__slots__}


def _out_from(d):
    out = Outcome()
    if d is None:
        out.status, out.oracle, out.detail = HARNESS, "harness", "isolated child died without a result"
        return out
    for k, v in d.items():
        setattr(out, k, v)
    return out


def run_plan_iso(eng, plan, prop):
    """run_plan in a forked child of this (pristine) process: the run sees a process in which no other run has
    happened.  Used for shrinking, confirmation and replay, and for every run of engines with ISOLATE == "run"."""
    if hasattr(eng, "preload"):
        eng.preload()
    return _out_from(_in_child(lambda: _out_dict(run_plan(eng, plan, prop))))


def run_history_iso(eng, plans, prop):
    """Execute several plans one after the other in ONE forked child (a process history) and return the outcome
    of the last one.  A defect that keeps state in the process shows only this way."""
    if hasattr(eng, "preload"):
        eng.preload()
    def go():
        out = None
        for pl in plans:
            out = run_plan(eng, pl, prop)
        return _out_dict(out)
    return _out_from(_in_child(go))


# ---------------------------------------------------------------------------------------------
# batch on a pool

def _work(args):
    eng = engine(args[0])
    mode = getattr(eng, "ISOLATE", "chunk")
    if mode == "chunk":
        if hasattr(eng, "preload"):
            eng.preload()
        res = _in_child(lambda: _work_body(args, per_run_fork=False))
        if res is None:
            res = empty_agg(); res["harness"].append((args[4], -1, None, "chunk child died (runs %d..%d)" % (args[4], args[5])))
        return res
    return _work_body(args, per_run_fork=(mode == "run"))


def _work_body(args, per_run_fork):
    eng_name, prop, tier, base_seed, lo, hi, want_digests = args
    eng = engine(eng_name)
    agg = {"runs": 0, "ok": 0, "viol": [], "harness": [], "faults": {}, "probes": {}, "sigs": set(),
           "nontrivial": 0, "sim_time": 0, "abstain": {}, "ops": 0, "faulted_runs": 0, "digests": {},
           "samples": [], "cpu_s": 0.0}
    t0 = time.process_time()
    for idx in range(lo, hi):
        seed = run_seed(prop, tier, base_seed, idx)
        faulthandler.dump_traceback_later(RUN_WALL_CAP, exit=True)
        try:
            plan = eng.generate(seed, tier, prop)
        except Exception:
            agg["harness"].append((idx, seed, None, "generate: " + traceback.format_exc()[-2000:]))
            continue
        out = run_plan_iso(eng, plan, prop) if per_run_fork else run_plan(eng, plan, prop)
        faulthandler.cancel_dump_traceback_later()
        agg["runs"] += 1
        if out.status == OK:
            agg["ok"] += 1
        elif out.status == VIOLATION:
            if len(agg["viol"]) < 6:
                agg["viol"].append((idx, seed, plan, dict(out.to_dict(), chunk_lo=lo)))
            else:
                agg["viol"].append((idx, seed, None, {"oracle": out.oracle, "key": out.key}))
        else:
            agg["harness"].append((idx, seed, plan, out.detail))
        for k, v in out.faults.items():
            agg["faults"][k] = agg["faults"].get(k, 0) + v
        for k, v in out.probes.items():
            agg["probes"][k] = agg["probes"].get(k, 0) + v
        for k, v in out.abstain.items():
            agg["abstain"][k] = agg["abstain"].get(k, 0) + v
        if out.nontrivial:
            agg["nontrivial"] += 1
            agg["sigs"] |= out.sigs
        agg["sim_time"] += out.sim_time
        agg["ops"] += out.ops
        agg["faulted_runs"] += 1 if out.faulted else 0
        if idx in want_digests:
            agg["digests"][idx] = out.digest
        if idx < 3:
            agg["samples"].append({"index": idx, "seed": seed, "plan": eng.brief(plan), "result": out.status,
                                   "digest": out.digest})
    agg["cpu_s"] = time.process_time() - t0
    return agg


def merge(a, b):
    for k in ("runs", "ok", "nontrivial", "sim_time", "ops", "faulted_runs", "cpu_s"):
        a[k] += b[k]
    for k in ("faults", "probes", "abstain"):
        for kk, v in b[k].items():
            a[k][kk] = a[k].get(kk, 0) + v
    a["sigs"] |= b["sigs"]
    a["viol"] += b["viol"]
    a["harness"] += b["harness"]
    a["digests"].update(b["digests"])
    a["samples"] += b["samples"]
    return a


def empty_agg():
    return {"runs": 0, "ok": 0, "viol": [], "harness": [], "faults": {}, "probes": {}, "sigs": set(),
            "nontrivial": 0, "sim_time": 0, "abstain": {}, "ops": 0, "faulted_runs": 0, "digests": {},
            "samples": [], "cpu_s": 0.0}


def run_batch(eng_name, prop, tier, base_seed, n_runs, wall_budget, workers=None, chunk=None,
              want_digests=(), progress=True):
    """Runs indices 0..n_runs-1 (fewer if the wall budget runs out; the number actually executed
    is reported).  Deterministic per index; the order of completion does not matter."""
    env.setup()
    workers = workers or int(os.environ.get("VERIF_WORKERS", "0")) or min(16, os.cpu_count() or 1)
    chunk = chunk or max(1, min(getattr(engine(eng_name), "CHUNK", 16), n_runs // (workers * 6) or 1))
    t0 = time.time()
    agg = empty_agg()
    tasks = [(eng_name, prop, tier, base_seed, lo, min(lo + chunk, n_runs), tuple(want_digests))
             for lo in range(0, n_runs, chunk)]
    ctx = mp.get_context("fork")
    submitted = 0
    done_tasks = 0
    broken = None
    with ProcessPoolExecutor(max_workers=workers, mp_context=ctx) as ex:
        pending = set()
        it = iter(tasks)
        def top_up():
            nonlocal submitted
            while len(pending) < workers * 2 and time.time() - t0 < wall_budget:
                try:
                    t = next(it)
                except StopIteration:
                    return
                pending.add(ex.submit(_work, t)); submitted += 1
        top_up()
        while pending:
            try:
                for f in as_completed(list(pending), timeout=RUN_WALL_CAP + 60):
                    pending.discard(f)
                    merge(agg, f.result())
                    done_tasks += 1
                    top_up()
                    break
            except Exception as e:      # BrokenProcessPool, TimeoutError
                broken = "pool failure: %r" % (e,)
                for f in pending:
                    f.cancel()
                break
    agg["wall_s"] = time.time() - t0
    agg["planned"] = n_runs
    agg["workers"] = workers
    if broken:
        agg["harness"].append((-1, -1, None, broken))
    return agg
