"""Independent float64 reference mathematics (numpy only; no pypose, no torch ops).

Storage conventions of pypose (checked against the documentation, not the code):
  SO3   [qx qy qz qw]                    so3   [phi(3)]
  SE3   [t(3) qx qy qz qw]               se3   [tau(3) phi(3)]
  RxSO3 [qx qy qz qw s]                  rxso3 [phi(3) sigma]
  Sim3  [t(3) qx qy qz qw s]             sim3  [tau(3) phi(3) sigma]
Matrix representations: SO3 3x3 R; SE3 4x4 [[R t],[0 1]]; RxSO3 3x3 sR; Sim3 4x4 [[sR t],[0 1]].
"""
import numpy as np

GROUPS = ("SO3", "SE3", "RxSO3", "Sim3")
ALGEBRA = {"SO3": "so3", "SE3": "se3", "RxSO3": "rxso3", "Sim3": "sim3"}
GDIM = {"SO3": 4, "SE3": 7, "RxSO3": 5, "Sim3": 8}
ADIM = {"SO3": 3, "SE3": 6, "RxSO3": 4, "Sim3": 7, "so3": 3, "se3": 6, "rxso3": 4, "sim3": 7}
MDIM = {"SO3": 3, "SE3": 4, "RxSO3": 3, "Sim3": 4}


def hat(v):
    x, y, z = v
    return np.array([[0, -z, y], [z, 0, -x], [-y, x, 0]], dtype=np.float64)


def expm(M):
    """Scaling and squaring with a Taylor polynomial; M is small (3x3 / 4x4 / 9x9)."""
    M = np.asarray(M, dtype=np.float64)
    nrm = np.linalg.norm(M, 1)
    s = 0
    if nrm > 0.25:
        s = int(np.ceil(np.log2(nrm / 0.25)))
    A = M / (2.0 ** s)
    E = np.eye(M.shape[0])
    term = np.eye(M.shape[0])
    for k in range(1, 20):
        term = term @ A / k
        E = E + term
    for _ in range(s):
        E = E @ E
    return E


def quat_to_R(q):
    """q = [x y z w], not assumed normalised: returns the rotation of q/|q|."""
    q = np.asarray(q, dtype=np.float64)
    q = q / np.linalg.norm(q)
    x, y, z, w = q
    return np.array([
        [1 - 2 * (y * y + z * z), 2 * (x * y - z * w), 2 * (x * z + y * w)],
        [2 * (x * y + z * w), 1 - 2 * (x * x + z * z), 2 * (y * z - x * w)],
        [2 * (x * z - y * w), 2 * (y * z + x * w), 1 - 2 * (x * x + y * y)]])


def R_to_quat(R):
    """Shepperd's method; returns [x y z w] with w >= 0."""
    R = np.asarray(R, dtype=np.float64)
    tr = np.trace(R)
    c = [R[0, 0], R[1, 1], R[2, 2], tr]
    i = int(np.argmax(c))
    if i == 3:
        w = 0.5 * np.sqrt(max(1 + tr, 0)); f = 0.25 / w
        q = [(R[2, 1] - R[1, 2]) * f, (R[0, 2] - R[2, 0]) * f, (R[1, 0] - R[0, 1]) * f, w]
    else:
        j, k = (i + 1) % 3, (i + 2) % 3
        r = np.sqrt(max(1 + R[i, i] - R[j, j] - R[k, k], 0)); f = 0.5 / r
        q = [0, 0, 0, 0]
        q[i] = 0.5 * r
        q[j] = (R[j, i] + R[i, j]) * f
        q[k] = (R[k, i] + R[i, k]) * f
        q[3] = (R[k, j] - R[j, k]) * f
    q = np.array(q)
    if q[3] < 0:
        q = -q
    return q / np.linalg.norm(q)


def rodrigues(phi):
    return expm(hat(phi))


def elem_to_mat(kind, x):
    x = np.asarray(x, dtype=np.float64)
    if kind == "SO3":
        return quat_to_R(x[0:4])
    if kind == "RxSO3":
        return x[4] * quat_to_R(x[0:4])
    M = np.eye(4)
    if kind == "SE3":
        M[:3, :3] = quat_to_R(x[3:7]); M[:3, 3] = x[0:3]
    elif kind == "Sim3":
        M[:3, :3] = x[7] * quat_to_R(x[3:7]); M[:3, 3] = x[0:3]
    else:
        raise ValueError(kind)
    return M


def mat_to_elem(kind, M):
    M = np.asarray(M, dtype=np.float64)
    if kind == "SO3":
        return R_to_quat(M)
    if kind == "RxSO3":
        s = np.cbrt(np.linalg.det(M))
        return np.concatenate([R_to_quat(M / s), [s]])
    if kind == "SE3":
        return np.concatenate([M[:3, 3], R_to_quat(M[:3, :3])])
    if kind == "Sim3":
        s = np.cbrt(np.linalg.det(M[:3, :3]))
        return np.concatenate([M[:3, 3], R_to_quat(M[:3, :3] / s), [s]])
    raise ValueError(kind)


def generator(kind, a):
    """Generator matrix of the algebra element a (kind may be the group or the algebra name)."""
    a = np.asarray(a, dtype=np.float64)
    kind = {"so3": "SO3", "se3": "SE3", "rxso3": "RxSO3", "sim3": "Sim3"}.get(kind, kind)
    if kind == "SO3":
        return hat(a[0:3])
    if kind == "RxSO3":
        return hat(a[0:3]) + a[3] * np.eye(3)
    G = np.zeros((4, 4))
    if kind == "SE3":
        G[:3, :3] = hat(a[3:6]); G[:3, 3] = a[0:3]
    elif kind == "Sim3":
        G[:3, :3] = hat(a[3:6]) + a[6] * np.eye(3); G[:3, 3] = a[0:3]
    else:
        raise ValueError(kind)
    return G


def exp_mat(kind, a):
    return expm(generator(kind, a))


def scale_of(kind, M):
    if kind in ("SO3", "SE3"):
        return 1.0
    return float(np.cbrt(np.linalg.det(np.asarray(M)[:3, :3])))


def batch_apply(fn, kind, X):
    """Apply fn(kind, x) over the leading axes of an array X[..., d]."""
    X = np.asarray(X, dtype=np.float64)
    flat = X.reshape(-1, X.shape[-1])
    res = np.stack([fn(kind, v) for v in flat])
    return res.reshape(X.shape[:-1] + res.shape[1:])


# ---------------------------------------------------------------------------------------------
# Kalman filter, LQ problem

def sym(P):
    return 0.5 * (P + P.T)


def kalman_step(x, P, u, y, A, B, C, D, c1, c2, Q, R):
    """Predict through x' = A x + B u + c1, then update with y = C x' + D u + c2."""
    xm = A @ x + B @ u + c1
    Pm = A @ P @ A.T + Q
    S = C @ Pm @ C.T + R
    K = Pm @ C.T @ np.linalg.inv(S)
    xp = xm + K @ (y - (C @ xm + D @ u + c2))
    Pp = Pm - K @ S @ K.T
    return xp, sym(Pp), {"S": S, "K": K, "xm": xm, "Pm": Pm}


def lq_reference(As, Bs, c1s, Q, p, x0):
    """min over u of sum_t 1/2 tau_t^T Q_t tau_t + p_t^T tau_t,  tau_t = [x_t; u_t],
    x_{t+1} = A_t x_t + B_t u_t + c1_t, t = 0..T-1.  Condensed in u, solved by Cholesky.
    Returns (x[T+1,n], u[T,m], cost, cond of reduced Hessian, function cost(u), gradient fn)."""
    T = len(As)
    n, m = Bs[0].shape
    # x_t = Phi_t x0 + sum_s G_{t,s} u_s + d_t
    Sx = np.zeros((T, n, T * m)); dx = np.zeros((T, n))
    xt_aff = np.zeros((n, T * m)); dt = x0.copy()
    for t in range(T):
        Sx[t] = xt_aff; dx[t] = dt
        nxt = As[t] @ xt_aff
        nxt[:, t * m:(t + 1) * m] += Bs[t]
        xt_aff = nxt
        dt = As[t] @ dt + c1s[t]
    # tau_t = M_t U + e_t
    Hs = np.zeros((T * m, T * m)); g = np.zeros(T * m); const = 0.0
    for t in range(T):
        M = np.zeros((n + m, T * m)); M[:n] = Sx[t]; M[n:, t * m:(t + 1) * m] = np.eye(m)
        e = np.concatenate([dx[t], np.zeros(m)])
        Hs += M.T @ Q[t] @ M
        g += M.T @ (Q[t] @ e + p[t])
        const += 0.5 * e @ Q[t] @ e + p[t] @ e
    Hs = sym(Hs)
    L = np.linalg.cholesky(Hs)
    U = -np.linalg.solve(L.T, np.linalg.solve(L, g))
    ev = np.linalg.eigvalsh(Hs)
    cond = ev[-1] / max(ev[0], 1e-300)

    def rollout(Uf):
        u = Uf.reshape(T, m)
        x = np.zeros((T + 1, n)); x[0] = x0
        for t in range(T):
            x[t + 1] = As[t] @ x[t] + Bs[t] @ u[t] + c1s[t]
        return x, u

    def cost(Uf):
        x, u = rollout(np.asarray(Uf, dtype=np.float64).reshape(-1))
        c = np.longdouble(0)
        for t in range(T):
            tau = np.concatenate([x[t], u[t]])
            c += np.longdouble(0.5 * tau @ Q[t] @ tau + p[t] @ tau)
        return float(c)

    def grad(Uf):
        return Hs @ np.asarray(Uf, dtype=np.float64).reshape(-1) + g

    x, u = rollout(U)
    return x, u, cost(U), cond, cost, grad, Hs
