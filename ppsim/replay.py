"""CLI:  replay <file>         re-execute a recorded (minimised) plan; exit 1 iff it violates again
         replay --digests PROP TIER BASE i,j,k   (used by the determinism self-test)"""
import json, os, sys
from .core import env


def main(argv=None):
    argv = argv or sys.argv[1:]
    env.setup()
    from .core import runner
    from .core.outcome import VIOLATION
    if argv[0] == "--digests":
        prop, tier, base, idxs = argv[1], argv[2], int(argv[3]), [int(x) for x in argv[4].split(",") if x]
        eng = runner.engine(runner.PROP_ENGINE[prop])
        res = {}
        for i in idxs:
            seed = runner.run_seed(prop, tier, base, i)
            res[i] = runner.run_plan_iso(eng, eng.generate(seed, tier, prop), prop).digest
        print(json.dumps(res))
        return 0
    with open(argv[0]) as f:
        rec = json.load(f)
    prop = rec["property"]
    eng = runner.engine(rec["engine"])
    if rec.get("history"):
        out = runner.run_history_iso(eng, list(rec["history"]) + [rec["plan"]], prop)
    else:
        out = runner.run_plan_iso(eng, rec["plan"], prop)
    print("replay property=%s status=%s oracle=%s key=%s step=%d digest=%s" %
          (prop, out.status, out.oracle, out.key, out.step, out.digest))
    if out.detail:
        print(out.detail[:3000])
    if out.status == VIOLATION:
        same = (out.oracle == rec.get("oracle") and out.digest == rec.get("digest"))
        print("VIOLATION property=%s replay=%s%s" % (prop, os.path.abspath(argv[0]),
                                                      "" if same else "  (differs from the recorded failure)"))
        return 1
    return 0 if out.status == "ok" else 2


if __name__ == "__main__":
    sys.exit(main())
