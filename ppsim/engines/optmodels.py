"""Generated residual-model family for optsim (stub side of the simulation).

A model is described by a JSON spec: 1-3 parameters (Euclidean tensor, Lie-algebra or Lie-group
pp.Parameter, optionally frozen) and 1-2 residual outputs built from Exp, Log, Inv, @, Act, +, * and a
polynomial term.  Adj / AdjT / Jinvp are excluded on purpose (their derivatives belong to C04).
"""
import numpy as np
import torch
from torch import nn
import pypose as pp

from ..core import rng, refmath

LT = {"SO3": (pp.SO3_type, pp.so3_type), "SE3": (pp.SE3_type, pp.se3_type),
      "RxSO3": (pp.RxSO3_type, pp.rxso3_type), "Sim3": (pp.Sim3_type, pp.sim3_type)}


def lie(data, fam, group):
    return pp.LieTensor(data, ltype=LT[fam][0 if group else 1])


def rand_alg(seed, name, shape, fam, dtype, scale=0.5):
    d = refmath.ADIM[fam]
    x = rng.randn(seed, name, tuple(shape) + (d,), torch.float64, scale)
    if fam in ("RxSO3", "Sim3"):
        x[..., -1] *= 0.4           # keep the log-scale moderate
    return lie(x.to(dtype), fam, False)


def rand_grp(seed, name, shape, fam, dtype, scale=0.7):
    return rand_alg(seed, name, shape, fam, torch.float64, scale).Exp().to(dtype)


class GenModel(nn.Module):
    def __init__(self, spec, seed, dtype):
        super().__init__()
        self.spec, self.dtype = spec, dtype
        self.kinds = []
        for i, ps in enumerate(spec["params"]):
            shape = () if ps["n"] == 0 else (ps["n"],)
            if ps["kind"] == "euclid":
                p = nn.Parameter(rng.randn(seed, ("p", i), (ps["k"],), dtype, 0.7))
            elif ps["kind"] == "alg":
                # ps["big"]: a rotation vector longer than pi (legal for an algebra element; Exp wraps it, the parameter
                # itself is just a vector and is updated by addition)
                p = pp.Parameter(rand_alg(seed, ("p", i), shape, ps["fam"], dtype, 4.5 if ps.get("big") else 0.5))
            else:
                p = pp.Parameter(rand_grp(seed, ("p", i), shape, ps["fam"], dtype))
            if ps.get("frozen"):
                p.requires_grad_(False)
            setattr(self, "p%d" % i, p)
            self.kinds.append(ps)

    def plist(self):
        return [getattr(self, "p%d" % i) for i in range(len(self.kinds))]

    def forward(self, *data, **kw):
        data = tuple(data) + tuple(kw[k] for k in sorted(kw, key=lambda n: int(n[1:])))   # dict input: keys d0, d1, ...
        P = self.plist()
        outs, di = [], 0
        for rs in self.spec["residuals"]:
            nd = N_DATA[rs["tpl"]]
            outs.append(_resid(rs, P, self.kinds, data[di:di + nd]))
            di += nd
        return outs[0] if len(outs) == 1 else tuple(outs)


N_DATA = {"loginv": 1, "grouplog": 1, "act": 2, "poly": 3, "mixed": 2, "between": 1, "scalar": 0, "prior": 0, "ops2": 2, "landmark": 1}


def _as_group(p, ps):
    return p.Exp() if ps["kind"] == "alg" else p


def _resid(rs, P, kinds, data):
    t = rs["tpl"]
    if t == "loginv":
        out = (P[rs["p"]].Exp() @ data[0]).Log().tensor()
    elif t == "grouplog":
        G = P[rs["p"]]
        out = ((G.Inv() @ data[0]) if rs.get("inv") else (G @ data[0])).Log().tensor()
    elif t == "act":
        G = _as_group(P[rs["p"]], kinds[rs["p"]])
        if G.ndim > 1:
            G = G.unsqueeze(-2)
        out = G.Act(data[0]) - data[1]          # data[0] has last dimension 3 (points) or 4 (homogeneous, w free)
        if torch.is_tensor(out) and type(out) is not torch.Tensor:
            out = out.tensor() if hasattr(out, "tensor") else out
    elif t == "poly":
        e = P[rs["p"]]
        e = e.tensor() if hasattr(e, "ltype") else e
        e = e.reshape(-1)
        lin = data[0] @ e
        out = lin + rs["c"] * (data[1] @ (e * e)) - data[2]
        if rs.get("col"):
            out = out.unsqueeze(-1)
    elif t == "mixed":
        a, G, e = P[rs["pa"]], P[rs["pg"]], P[rs["pe"]]
        H = a.Exp() @ G
        if H.ndim > 1:
            H = H.unsqueeze(-2)
        out = H.Act(data[0]) + e - data[1]
    elif t == "between":
        G = P[rs["p"]]
        out = (G[:-1].Inv() @ G[1:] @ data[0]).Log().tensor()
    elif t == "ops2":
        # the remaining operators of the documented set: Adj, AdjT, Retr, matrix(), Jinvp (data[0]: algebra element,
        # data[1]: a target of the output's shape)
        G = _as_group(P[rs["p"]], kinds[rs["p"]])
        a = data[0]
        op = rs["op"]
        if op == "adj":
            out = G.Adj(a).tensor()
        elif op == "adjT":
            out = G.AdjT(a).tensor()
        elif op == "retr":
            out = G.Retr(a).Log().tensor()
        elif op == "plus":
            out = (G + a).Log().tensor()
        elif op == "matrix":
            out = G.matrix().flatten(-2)
        else:
            out = G.Jinvp(a).tensor()
        out = out - data[1]
    elif t == "landmark":
        # pose and landmarks both trainable: the acted points are a Euclidean parameter (3 numbers per point)
        G = _as_group(P[rs["pg"]], kinds[rs["pg"]])
        if G.ndim > 1:
            G = G.unsqueeze(-2)
        pts = P[rs["pe"]].reshape(-1, 3)
        out = G.Act(pts) - data[0]
    elif t == "scalar":
        out = P[rs["p"]].reshape(1)
    elif t == "prior":
        # a zero-mean prior on a Euclidean / algebra parameter: the model returns the parameter itself (a view of its
        # storage, no fresh tensor), as in `return err, self.t`
        q_ = P[rs["p"]]
        out = (q_.tensor() if hasattr(q_, "ltype") else q_)
        out = out.reshape(-1, out.shape[-1]) if out.ndim > 1 else out.view(-1)
    else:
        raise ValueError(t)
    if rs.get("cubic"):
        out = out + rs["cubic"] * out ** 3
    return out


def make_data(spec, seed, dtype):
    """Input tensors of the model, in the order forward() consumes them."""
    data = []
    for j, rs in enumerate(spec["residuals"]):
        t = rs["tpl"]
        if t in ("loginv", "grouplog"):
            ps = spec["params"][rs["p"]]
            shape = (() if ps["n"] == 0 else (ps["n"],))
            if rs.get("M"):
                shape = (rs["M"],) + (shape or (1,))
            data.append(rand_grp(seed, ("d", j), shape, ps["fam"], dtype))
        elif t == "act":
            ps = spec["params"][rs["p"]]
            lead = () if ps["n"] == 0 else (ps["n"],)
            pd_ = 4 if rs.get("homog") else 3
            pts_ = rng.randn(seed, ("d", j, "pts"), lead + (rs["npts"], pd_), dtype)
            if pd_ == 4:
                pts_[..., 0, 3] = 0.0           # one direction (w = 0) among the homogeneous points
            data.append(pts_)
            data.append(rng.randn(seed, ("d", j, "tgt"), lead + (rs["npts"], pd_), dtype))
        elif t == "poly":
            ps = spec["params"][rs["p"]]
            k = ps["k"] if ps["kind"] == "euclid" else refmath.ADIM[ps["fam"]] * max(1, ps["n"])
            data.append(rng.randn(seed, ("d", j, "W"), (rs["r"], k), dtype))
            data.append(rng.randn(seed, ("d", j, "W2"), (rs["r"], k), dtype))
            data.append(rng.randn(seed, ("d", j, "y"), (rs["r"],), dtype))
        elif t == "mixed":
            ps = spec["params"][rs["pg"]]
            lead = () if ps["n"] == 0 else (ps["n"],)
            data.append(rng.randn(seed, ("d", j, "pts"), lead + (rs["npts"], 3), dtype))
            data.append(rng.randn(seed, ("d", j, "tgt"), lead + (rs["npts"], 3), dtype))
        elif t == "between":
            ps = spec["params"][rs["p"]]
            data.append(rand_grp(seed, ("d", j), (ps["n"] - 1,), ps["fam"], dtype, 0.3))
        elif t == "landmark":
            ps = spec["params"][rs["pg"]]
            lead = () if ps["n"] == 0 else (ps["n"],)
            data.append(rng.randn(seed, ("d", j, "obs"), lead + (rs["npts"], 3), dtype))
        elif t == "ops2":
            ps = spec["params"][rs["p"]]
            shape = () if ps["n"] == 0 else (ps["n"],)
            data.append(rand_alg(seed, ("d", j, "a"), shape, ps["fam"], dtype, 0.6))
            od = {"matrix": {"SO3": 9, "SE3": 16, "RxSO3": 16, "Sim3": 16}[ps["fam"]]}.get(rs["op"], refmath.ADIM[ps["fam"]])
            data.append(rng.randn(seed, ("d", j, "tgt"), shape + (od,), dtype, 0.3))
    return tuple(data)


# ---------------------------------------------------------------------------------------------
# spec generation

def gen_spec(r, prop, allow_frozen=True):
    """r: random.Random.  C07 excludes sim3/Sim3 from Exp/Log templates: pypose documents their
    Jacobians as truncated series, so 'J is the true Jacobian' is not promised there."""
    fams = ["SO3", "SE3", "RxSO3", "Sim3"]
    exact = ["SO3", "SE3", "RxSO3"] if prop == "C07" else fams
    arch = r.choice(["loginv", "grouplog", "act", "poly", "mixed", "between", "two", "two", "scalar", "ops2", "landmark"] if prop == "C08"
                    else ["loginv", "grouplog", "act", "poly", "mixed", "between", "two", "two", "two", "ops2", "ops2", "landmark"])
    nmax = 3 if prop == "C08" else 2
    params, residuals = [], []

    def lie_param(kind, fam=None, n=None):
        return {"kind": kind, "fam": fam or r.choice(exact), "n": r.choice([0, 1, 2, nmax]) if n is None else n}

    def add_resid(tpl, **kw):
        rs = {"tpl": tpl}; rs.update(kw)
        if r.random() < 0.3 and tpl != "scalar":
            rs["cubic"] = r.choice([0.1, 0.5])
        residuals.append(rs)

    def one(tpl):
        if tpl == "loginv":
            params.append(lie_param("alg")); add_resid("loginv", p=len(params) - 1, M=r.choice([0, 0, 2]))
        elif tpl == "grouplog":
            params.append(lie_param("grp")); add_resid("grouplog", p=len(params) - 1, inv=r.random() < 0.5, M=r.choice([0, 0, 2]))
        elif tpl == "act":
            kind = r.choice(["alg", "grp"])
            params.append(lie_param(kind, fam=r.choice(exact if kind == "alg" else fams)))
            add_resid("act", p=len(params) - 1, npts=r.randint(2, 4), homog=r.random() < 0.35)
        elif tpl == "poly":
            params.append({"kind": "euclid", "k": r.randint(1, 4), "n": 0})
            add_resid("poly", p=len(params) - 1, r=r.randint(2, 5), c=r.choice([0.0, 0.2, 1.0]), col=r.random() < 0.5)
        elif tpl == "between":
            params.append(lie_param("grp", n=r.choice([2, 3]))); add_resid("between", p=len(params) - 1)
        elif tpl == "mixed":
            fam = r.choice(["SO3", "SE3", "RxSO3"] if prop == "C07" else fams)
            n = r.choice([0, 1, 2])
            order = [0, 1, 2]; r.shuffle(order)
            trio = [None, None, None]
            trio[order[0]] = ("pa", {"kind": "alg", "fam": fam, "n": n})
            trio[order[1]] = ("pg", {"kind": "grp", "fam": fam, "n": n})
            trio[order[2]] = ("pe", {"kind": "euclid", "k": 3, "n": 0})
            kw = {}
            for nm, ps in trio:
                params.append(ps); kw[nm] = len(params) - 1
            add_resid("mixed", npts=r.randint(2, 3), **kw)
        elif tpl == "ops2":
            op = r.choice(["adj", "adjT", "retr", "plus", "matrix", "jinvp"])
            kind = r.choice(["alg", "grp"])
            # Retr / + / Jinvp on sim3 go through the truncated series; C07 keeps to the exact families there
            fam_ok = exact if (prop == "C07" and op in ("retr", "plus", "jinvp")) else (fams if kind == "grp" else exact)
            params.append(lie_param(kind, fam=r.choice(fam_ok)))
            add_resid("ops2", p=len(params) - 1, op=op)
        elif tpl == "landmark":
            kind = r.choice(["alg", "grp"])
            npts = r.randint(2, 3)
            params.append(lie_param(kind, fam=r.choice(exact if kind == "alg" else fams)))
            params.append({"kind": "euclid", "k": 3 * npts, "n": 0})
            add_resid("landmark", pg=len(params) - 2, pe=len(params) - 1, npts=npts)
        elif tpl == "scalar":
            params.append({"kind": "euclid", "k": 1, "n": 0}); add_resid("scalar", p=0)

    if arch == "two":
        a, b = r.choice(["loginv", "grouplog", "act", "poly", "ops2"]), r.choice(["loginv", "grouplog", "act", "poly", "between", "ops2"])
        one(a)
        if r.random() < 0.3 and params[0]["kind"] != "euclid":
            add_resid("act", p=0, npts=2)           # one parameter feeding two residuals
        else:
            one(b)
    else:
        one(arch)
    if arch != "scalar" and len(residuals) == 1 and r.random() < 0.25:
        cand = [k for k, ps in enumerate(params) if ps["kind"] in ("euclid", "alg")]
        if cand:
            residuals.append({"tpl": "prior", "p": r.choice(cand)})
    for ps in params:
        if ps["kind"] == "alg" and r.random() < 0.15:
            ps["big"] = True
    if allow_frozen and len(params) >= 2 and r.random() < 0.3:
        params[r.randrange(len(params))]["frozen"] = True
    return {"params": params, "residuals": residuals}


# ---------------------------------------------------------------------------------------------
# tangent coordinates (reference side)

def snapshot(model):
    return [p.detach().clone() for p in model.plist()]


def restore(model, snap):
    with torch.no_grad():
        for p, s in zip(model.plist(), snap):
            p.copy_(s)


def tangent_layout(model):
    """[(param index, numel, storage dim, manifold dim, is_group, fam)] for the non-frozen parameters,
    in the order pypose lays out the columns of J."""
    lay = []
    for i, (p, ps) in enumerate(zip(model.plist(), model.kinds)):
        if ps["kind"] == "euclid":
            lay.append((i, p.numel(), 1, 1, False, None))
        else:
            sd = p.shape[-1]
            md = refmath.ADIM[ps["fam"]]
            lay.append((i, p.numel(), sd, md, ps["kind"] == "grp", ps["fam"]))
    return lay


def retract_ref(snap_i, ps, d):
    """Reference update of one parameter (numpy float64): storage values after moving by tangent d
    (d has the storage layout: for group parameters only the first manifold-dim slots count)."""
    x = snap_i.detach().double().numpy()
    d = np.asarray(d, dtype=np.float64).reshape(x.shape)
    if ps["kind"] != "grp":
        return ("vec", x + d)
    fam = ps["fam"]; md = refmath.ADIM[fam]
    flat, dflat = x.reshape(-1, x.shape[-1]), d.reshape(-1, x.shape[-1])
    mats = np.stack([refmath.exp_mat(fam, dv[:md]) @ refmath.elem_to_mat(fam, xv) for xv, dv in zip(flat, dflat)])
    return ("mat", mats)


def as_ref(t, ps):
    x = t.detach().double().numpy()
    if ps["kind"] != "grp":
        return ("vec", x)
    flat = x.reshape(-1, x.shape[-1])
    return ("mat", np.stack([refmath.elem_to_mat(ps["fam"], v) for v in flat]))


def perturb(model, snap, col_param, item, slot, h):
    """Set the model's parameters to snap with one tangent coordinate moved by h (left perturbation
    Exp(h e_slot) X for group parameters, through the reference exponential, not pypose's)."""
    restore(model, snap)
    p = model.plist()[col_param]; ps = model.kinds[col_param]
    with torch.no_grad():
        if ps["kind"] != "grp":
            flat = p.view(-1)
            flat[item * (1 if ps["kind"] == "euclid" else p.shape[-1]) + slot] += h
        else:
            fam = ps["fam"]; md = refmath.ADIM[fam]
            flat = p.view(-1, p.shape[-1])
            dv = np.zeros(md); dv[slot] = h
            M = refmath.exp_mat(fam, dv) @ refmath.elem_to_mat(fam, flat[item].double().numpy())
            e = refmath.mat_to_elem(fam, M)
            old = flat[item].double().numpy()
            qs = {"SO3": 0, "SE3": 3, "RxSO3": 0, "Sim3": 3}[fam]
            if np.dot(e[qs:qs + 4], old[qs:qs + 4]) < 0:
                e[qs:qs + 4] = -e[qs:qs + 4]
            flat[item] = torch.tensor(e, dtype=p.dtype)
