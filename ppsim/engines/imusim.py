"""imusim -- C16: one IMU stream under seeded fragmentation against a sequential reference recursion.

Real code: IMUPreintegrator (forward, integrate, predict, propagate_cov), pypose.cumprod, SO3 ops.
Stub: the data source only.
"""
import numpy as np
import torch
import pypose as pp

from ..core import rng, refmath, boundary
from ..core.outcome import Violation

NAME = "imusim"
SIM_UNIT = "IMU frames"
BUDGET = {"quick": {"runs": 2200, "wall": 80}, "thorough": {"runs": 60000, "wall": 1200}}
ISOLATE = "chunk"       # every chunk of runs in a forked child of a pristine worker: what a run sees of the process is a
                        # deterministic function of the runs before it in the same chunk (see runner.run_history_iso)
SHRINK_LISTS = ("ops",)
PROBES = {"C16": ["init_state-then-carried", "negative-gravity", "ctor-tensors-reused", "dt:const-per-row", "prop_cov=False", "per-axis-noise-cov", "layout:strided", "layout:expanded-dt", "explicit-init-state", "reset=True-repeat", "chunk-of-one", "all-singletons", "F-not-pow2-minus-1", "rank-FH", "rank-H", "known-rot",
                  "integrated-rot+gravity", "zero-gravity", "float32", "batch>1", "nonidentity-init"]}

# tolerance constants: calibrated on the repaired tree, worst observed ratio noted in DESIGN.md
import os
C_STATE = 40.0 * float(os.environ.get('PPSIM_TOLSCALE', '1'))      # |x - ref| <= C * eps * (F + 8) * (1 + max|ref|)
C_COV = 400.0 * float(os.environ.get('PPSIM_TOLSCALE', '1'))


def generate(seed, tier, prop="C16"):
    r = rng.stream(seed, "config")
    F = 1 + rng.H(seed, "F") % 200
    if r.random() < 0.25:
        F = r.choice([1, 2, 3, 4, 5, 6, 7, 8, 9, 15, 16, 17, 31, 32, 33, 63, 64, 65, 127, 128, 129, 200])
    B = r.choice([1, 1, 2, 3, 4])
    cfg = {"F": F, "B": B, "dtype": r.choice(["f64", "f64", "f32"]),
           "dt_mode": r.choice(["const", "const-per-row", "rand", "rand"]), "dt": rng.loguniform(r, 1e-4, 1.0),
           "gyro_scale": r.choice([0.0, 0.05, 0.5, 3.0]), "acc_scale": r.choice([0.0, 1.0, 10.0]),
           "known_rot": r.random() < 0.35, "gravity": r.choice([9.81007, 9.81007, 0.0, 1.62, -9.81007]),
           "init": r.random() < 0.6, "init_batched": r.random() < 0.4, "explicit": r.random() < 0.4,
           "layout": r.choice(["plain", "plain", "strided", "expanded-dt"]),
           "noise_cov": r.choice(["default", "default", "ctor-per-axis", "call-per-axis"])}
    ro = rng.stream(seed, "ops")
    style = ro.choice(["few", "few", "many", "singletons", "head1", "tail1"])
    cuts = set()
    if F > 1:
        if style == "few":
            for _ in range(ro.randint(1, 3)):
                cuts.add(ro.randint(1, F - 1))
        elif style == "many":
            for _ in range(ro.randint(3, max(3, F // 2))):
                cuts.add(ro.randint(1, F - 1))
        elif style == "singletons":
            cuts = set(range(1, F))
        elif style == "head1":
            cuts = {1} | {ro.randint(1, F - 1)}
        else:
            cuts = {F - 1} | {ro.randint(1, F - 1)}
    ops = [{"id": k, "op": "cut", "at": k} for k in sorted(cuts)]
    return {"engine": NAME, "seed": seed, "config": cfg, "ops": ops}


def brief(plan):
    c = dict(plan["config"])
    cuts = [o["at"] for o in plan["ops"]]
    c["cuts"] = cuts if len(cuts) <= 12 else cuts[:12] + ["... %d cuts" % len(cuts)]
    return c


def repair(plan):
    F = plan["config"]["F"]
    plan["ops"] = [o for o in plan["ops"] if 0 < o["at"] < F]
    return plan


def simplify(plan):
    c = plan["config"]
    cands = []
    for F in sorted({1, 2, 3, 5, c["F"] // 2, c["F"] - 1}):
        if 1 <= F < c["F"]:
            cands.append(repair({**plan, "config": dict(c, F=F), "ops": list(plan["ops"])}))
    if c["B"] > 1:
        cands.append({**plan, "config": dict(c, B=1)})
    for k, v in (("dtype", "f64"), ("known_rot", False), ("gravity", 0.0), ("init", False), ("dt_mode", "const"),
                 ("gyro_scale", 0.0), ("acc_scale", 0.0), ("layout", "plain"), ("explicit", False), ("noise_cov", "default")):
        if c.get(k) != v:
            cands.append({**plan, "config": dict(c, **{k: v})})
    return cands


# ---------------------------------------------------------------------------------------------

def _reference(dt, gyro, acc, rot_known, g, R0, v0, p0, conv):
    """Sequential recursion of the statement, float64.  conv: which integrated rotation removes
    gravity ('end' = after the frame's own rotation increment, 'start' = before)."""
    F = dt.shape[0]
    dR, dv, dp, Dt = np.eye(3), np.zeros(3), np.zeros(3), 0.0
    gv = np.array([0.0, 0.0, g])
    Rs, vs, ps = [], [], []
    for k in range(F):
        h = float(dt[k, 0])
        dRn = dR @ refmath.rodrigues(gyro[k] * h)
        if rot_known is not None:
            Rg = rot_known[k]
        else:
            Rg = R0 @ (dRn if conv == "end" else dR)
        a = acc[k] - Rg.T @ gv
        dp = dp + dv * h + 0.5 * (dR @ a) * h * h
        dv = dv + (dR @ a) * h
        dR = dRn
        Dt += h
        Rs.append(R0 @ dR); vs.append(v0 + R0 @ dv); ps.append(p0 + R0 @ dp + v0 * Dt)
    return np.stack(Rs), np.stack(vs), np.stack(ps)


def _guard(fn, what, step, key):
    try:
        return fn()
    except Violation:
        raise
    except Exception as e:
        raise Violation("C16.raises", "%s raised %s: %s" % (what, type(e).__name__, str(e)[:300]), step, key)


def _cov_check(cov, eps, step, what):
    c = cov.detach().double().numpy()
    for b in range(c.shape[0]):
        M = c[b]
        nrm = max(np.abs(M).max(), 1e-300)
        if not np.isfinite(M).all():
            raise Violation("C16.cov", "%s: covariance not finite" % what, step, "cov:nonfinite")
        asym = np.abs(M - M.T).max()
        if asym > C_COV * eps * nrm:
            raise Violation("C16.cov", "%s: covariance asymmetric by %.3e (norm %.3e)" % (what, asym, nrm), step,
                            "cov:asym")
        lam = np.linalg.eigvalsh(0.5 * (M + M.T))[0]
        if lam < -C_COV * eps * nrm:
            raise Violation("C16.cov", "%s: covariance has eigenvalue %.3e (norm %.3e)" % (what, lam, nrm), step,
                            "cov:psd")


def execute(plan, prop, out, tr):
    c, s = plan["config"], plan["seed"]
    F, B = c["F"], c["B"]
    dtype = torch.float64 if c["dtype"] == "f64" else torch.float32
    eps = 2.3e-16 if c["dtype"] == "f64" else 1.2e-7
    if c["dt_mode"] == "const":
        dt = torch.full((B, F, 1), c["dt"], dtype=torch.float64).to(dtype)
    elif c["dt_mode"] == "const-per-row":
        # every batch row is fixed-rate, each at its own rate
        rates = c["dt"] * (1.0 + 0.37 * torch.arange(B, dtype=torch.float64)).clamp(max=1.0 / max(c["dt"], 1e-9))
        dt = rates.clamp(1e-4, 1.0).reshape(B, 1, 1).expand(B, F, 1).clone().to(dtype)
        out.probe("dt:const-per-row")
    else:
        dt = torch.exp(rng.rand(s, ("dt",), (B, F, 1), None, np.log(1e-4), 0.0)).to(dtype)
    gyro = rng.randn(s, ("gyro",), (B, F, 3), dtype, c["gyro_scale"])
    acc = rng.randn(s, ("acc",), (B, F, 3), dtype, c["acc_scale"])
    lay = c.get("layout", "plain")
    if lay == "strided":
        # the same samples living in every second slot of larger buffers (non-contiguous views)
        def strided(t):
            base = torch.zeros(t.shape[:-1] + (2 * t.shape[-1],), dtype=t.dtype); base[..., ::2] = t
            return base[..., ::2]
        dt, gyro, acc = strided(dt), strided(gyro), strided(acc)
        out.probe("layout:strided")
    elif lay == "expanded-dt" and c["dt_mode"] == "const":
        dt = dt[:1, :1, :].expand(B, F, 1)          # one stored value, stride 0 over batch and frames
        out.probe("layout:expanded-dt")
    rot_known = None
    if c["known_rot"]:
        rot_known = pp.so3(rng.randn(s, ("rot",), (B, F, 3), dtype)).Exp()
        out.probe("known-rot")
    g = c["gravity"]
    ib = B if c["init_batched"] else 1
    if c["init"]:
        p0 = rng.randn(s, ("p0",), (ib, 1, 3), dtype, 2.0)
        v0 = rng.randn(s, ("v0",), (ib, 1, 3), dtype, 2.0)
        r0 = pp.so3(rng.randn(s, ("r0",), (ib, 1, 3), dtype)).Exp()
        out.probe("nonidentity-init")
    else:
        p0 = torch.zeros(1, 1, 3, dtype=dtype); v0 = torch.zeros(1, 1, 3, dtype=dtype)
        r0 = pp.identity_SO3(1, 1, dtype=dtype)
        ib = 1
    cuts = sorted({o["at"] for o in plan["ops"] if 0 < o["at"] < F})
    bounds = [0] + cuts + [F]
    chunks = [(bounds[i], bounds[i + 1]) for i in range(len(bounds) - 1)]
    tr.ev("plan", c, cuts)
    if any(b - a == 1 for a, b in chunks) and len(chunks) > 1:
        out.probe("chunk-of-one")
    if len(chunks) == F and F > 1:
        out.probe("all-singletons")
    if (F + 1) & F:
        out.probe("F-not-pow2-minus-1")
    if c["dtype"] == "f32":
        out.probe("float32")
    if B > 1:
        out.probe("batch>1")
    if g == 0.0:
        out.probe("zero-gravity")
    if g < 0:
        out.probe("negative-gravity")
    if rot_known is None and g != 0.0:
        out.probe("integrated-rot+gravity")
    out.fault("fragmentation-cut", len(cuts))

    # sensor noise: the scalar defaults, or per-axis covariances (three unequal entries) at construction / per call
    nc = c.get("noise_cov", "default")
    gcov = torch.tensor([[2.0e-3, 5.0e-4, 9.0e-3]], dtype=dtype); acov = torch.tensor([[6.0e-3, 1.0e-3, 3.0e-2]], dtype=dtype)
    ctor_kw = {"gyro_cov": gcov.clone(), "acc_cov": acov.clone()} if nc == "ctor-per-axis" else {}
    call_kw = {"gyro_cov": gcov.expand(B, 1, 3).clone(), "acc_cov": acov.expand(B, 1, 3).clone()} if nc == "call-per-axis" else {}
    if nc != "default":
        out.probe("per-axis-noise-cov")

    def mk():
        m = pp.module.IMUPreintegrator(pos=p0.clone(), rot=r0.clone(), vel=v0.clone(), gravity=g, reset=False, **ctor_kw)
        return m.double() if dtype == torch.float64 else m

    # --- reference (gravity as the module holds it: the constructor stores it in float32)
    npd = lambda t: t.detach().double().numpy()
    g = float(mk().gravity[2])
    refs = []
    for b in range(B):
        bi = b if ib > 1 else 0
        R0 = refmath.quat_to_R(npd(r0.tensor())[bi, 0]); vv = npd(v0)[bi, 0]; pv = npd(p0)[bi, 0]
        rk = None if rot_known is None else np.stack([refmath.quat_to_R(q) for q in npd(rot_known.tensor())[b]])
        cands = {}
        for conv in (("end", "start") if (rot_known is None and g != 0.0) else ("end",)):
            cands[conv] = _reference(npd(dt)[b], npd(gyro)[b], npd(acc)[b], rk, g, R0, vv, pv, conv)
        refs.append(cands)

    def compare(tag, res, step, lo=0, hi=F):
        rot = npd(res["rot"].tensor()); vel = npd(res["vel"]); pos = npd(res["pos"])
        if rot.shape[:2] != (B, hi - lo) or vel.shape != (B, hi - lo, 3) or pos.shape != (B, hi - lo, 3):
            raise Violation("C16.shape", "%s: output shapes rot%s vel%s pos%s for B=%d frames=%d" %
                            (tag, rot.shape, vel.shape, pos.shape, B, hi - lo), step, "shape")
        tol = C_STATE * eps * (F + 8)
        worst = None
        for b in range(B):
            Rg = np.stack([refmath.quat_to_R(q) for q in rot[b]])
            qn = np.abs(np.linalg.norm(rot[b], axis=-1) - 1).max()
            if not (qn <= tol):
                raise Violation("C16.state", "%s: rotation output not unit (|q|-1 = %.3e)" % (tag, qn), step, "unit")
            best = None
            for conv, (Rr, vr, pr) in refs[b].items():
                e = max(np.abs(Rg - Rr[lo:hi]).max(),
                        np.abs(vel[b] - vr[lo:hi]).max() / (1 + np.abs(vr).max()),
                        np.abs(pos[b] - pr[lo:hi]).max() / (1 + np.abs(pr).max()))
                if best is None or e < best[0]:
                    best = (e, conv)
            if worst is None or best[0] > worst[0]:
                worst = best
        if not (worst[0] <= tol):
            raise Violation("C16.state", "%s: frames %d..%d deviate from the sequential recursion by %.3e (tolerance "
                            "%.3e, F=%d, B=%d, %s)" % (tag, lo, hi, worst[0], tol, F, B, c["dtype"]), step,
                            "state:" + tag.split("#")[0])
        return worst

    def feed(m, lo, hi, rank):
        kw = dict(call_kw) if rank == "BFH" else {}
        if rank == "BFH":
            a = (dt[:, lo:hi], gyro[:, lo:hi], acc[:, lo:hi])
            if rot_known is not None:
                kw["rot"] = rot_known[:, lo:hi]
        elif rank == "FH":
            a = (dt[0, lo:hi], gyro[0, lo:hi], acc[0, lo:hi])
            if rot_known is not None:
                kw["rot"] = rot_known[0, lo:hi]
        else:
            a = (dt[0, lo], gyro[0, lo], acc[0, lo])
            if rot_known is not None:
                kw["rot"] = rot_known[0, lo]
        return m(*a, **kw)

    before = [t.clone() for t in (dt, gyro, acc)]
    # --- (i) whole stream in one call
    m = mk()
    whole = _guard(lambda: feed(m, 0, F, "BFH"), "IMUPreintegrator call with %d frames, batch %d" % (F, B), 0,
                   "raises:whole")
    w = compare("whole", whole, 0)
    _cov_check(whole["cov"], eps, 0, "whole")
    tr.ev("whole", whole["rot"], whole["vel"], whole["pos"], whole["cov"])
    out.sim_time += F; out.ops += 1
    out.sigs.add("F%d" % F)
    # --- (ii) chunked
    if len(chunks) > 1:
        m2 = mk()
        parts = []
        kept_parts = []
        for ci, (lo, hi) in enumerate(chunks):
            res = _guard(lambda: feed(m2, lo, hi, "BFH"), "chunk %d (%d frames) of a %d-frame stream" % (ci, hi - lo, F),
                         lo, "raises:chunk")
            compare("chunk#%d" % ci, res, lo, lo, hi)
            _cov_check(res["cov"], eps, lo, "chunk %d" % ci)
            parts.append(res)
            kept_parts.append({k_: (res[k_].tensor() if k_ == "rot" else res[k_]).detach().clone() for k_ in ("rot", "vel", "pos")})
            out.ops += 1
        # the per-chunk results are the caller's: collected during the stream, read after it
        for ci, (res, snap_) in enumerate(zip(parts, kept_parts)):
            for k_ in ("rot", "vel", "pos"):
                cur_ = res[k_].tensor() if k_ == "rot" else res[k_]
                if cur_.shape != snap_[k_].shape or not torch.equal(cur_, snap_[k_]):
                    raise Violation("C16.mutation", "the '%s' returned for chunk %d of %d was changed by the calls made for later "
                                    "chunks (shape %s -> %s)" % (k_, ci, len(chunks), tuple(snap_[k_].shape), tuple(cur_.shape)),
                                    chunks[ci][0], "mutation:returned-result")
        tr.ev("chunked", [p["pos"] for p in parts][-1])
        out.sim_time += F
        # chunk invariance: states equal those of the single call
        tol = C_STATE * eps * (F + 8)
        for key in ("rot", "vel", "pos"):
            cat = torch.cat([(p[key].tensor() if key == "rot" else p[key]) for p in parts], dim=1).double()
            ref = (whole[key].tensor() if key == "rot" else whole[key]).double()
            if key == "rot":
                sgn = torch.sign((cat * ref).sum(-1, keepdim=True)); cat = cat * sgn
            err = ((cat - ref).abs().amax() / (1 + ref.abs().amax())).item()
            if not (err <= tol):
                raise Violation("C16.chunk", "'%s' differs by %.3e between one call and %d chunks (cuts %s; tolerance "
                                "%.3e)" % (key, err, len(chunks), cuts[:10], tol), 0, "chunk:" + key)
        out.sigs.add("F%d|c%d|one%s" % (min(F, 64), min(len(chunks), 8), any(b - a == 1 for a, b in chunks)))
        out.nontrivial = True
    # --- (ii-b) a reset=True integrator driven with the explicit init_state of the previous chunk's last frame,
    #     and called twice on the first chunk (a reset=True integrator carries nothing between calls)
    if len(chunks) > 1 and c.get("explicit"):
        m5 = pp.module.IMUPreintegrator(pos=p0.clone(), rot=r0.clone(), vel=v0.clone(), gravity=c["gravity"], reset=True)
        m5 = m5.double() if dtype == torch.float64 else m5
        lo, hi = chunks[0]
        first = _guard(lambda: feed(m5, lo, hi, "BFH"), "reset=True call", lo, "raises:explicit")
        again = _guard(lambda: feed(m5, lo, hi, "BFH"), "reset=True call repeated", lo, "raises:explicit")
        for key in ("rot", "vel", "pos"):
            a_, b_ = first[key], again[key]
            a_ = a_.tensor() if key == "rot" else a_; b_ = b_.tensor() if key == "rot" else b_
            if not torch.equal(a_, b_):
                raise Violation("C16.chunk", "a reset=True integrator returned different '%s' for the same call made twice" % key,
                                lo, "reset-true:" + key)
        out.probe("reset=True-repeat")
        state = {k_: (first[k_][..., -1:, :]) for k_ in ("pos", "rot", "vel")}
        compare("explicit#0", first, lo, lo, hi)
        for ci, (lo, hi) in enumerate(chunks[1:], 1):
            kw = {"init_state": dict(state)}
            if rot_known is not None:
                kw["rot"] = rot_known[:, lo:hi]
            res = _guard(lambda: m5(dt[:, lo:hi], gyro[:, lo:hi], acc[:, lo:hi], **kw),
                         "chunk %d with explicit init_state" % ci, lo, "raises:explicit")
            compare("explicit#%d" % ci, res, lo, lo, hi)
            state = {k_: (res[k_][..., -1:, :]) for k_ in ("pos", "rot", "vel")}
            out.ops += 1
        out.probe("explicit-init-state")
        out.sigs.add("F%d|explicit|c%d" % (min(F, 64), min(len(chunks), 8)))
    # --- (ii-e) reset=False integrator: the first chunk starts from an explicit init_state, later chunks rely on the state
    #     the integrator carries
    if len(chunks) > 1 and rng.H(s, "init-then-carry") % 3 == 0:
        m9 = pp.module.IMUPreintegrator(gravity=c["gravity"], reset=False, **ctor_kw)
        m9 = m9.double() if dtype == torch.float64 else m9
        st0 = {"pos": p0.expand(B, 1, 3).clone() if True else p0, "rot": pp.LieTensor(r0.tensor().expand(B, 1, 4).clone(), ltype=pp.SO3_type),
               "vel": v0.expand(B, 1, 3).clone()}
        for ci, (lo, hi) in enumerate(chunks):
            kw = dict(call_kw)
            if rot_known is not None:
                kw["rot"] = rot_known[:, lo:hi]
            if ci == 0:
                kw["init_state"] = st0
            res = _guard(lambda: m9(dt[:, lo:hi], gyro[:, lo:hi], acc[:, lo:hi], **kw), "chunk %d (init_state at chunk 0 only)" % ci,
                         lo, "raises:init-then-carry")
            compare("init-then-carry#%d" % ci, res, lo, lo, hi)
            out.ops += 1
        out.probe("init_state-then-carried")
    # --- (ii-c) covariance propagation switched off (allowed only with reset=True): the states are the same
    if rng.H(s, "nocov") % 4 == 0:
        m6 = pp.module.IMUPreintegrator(pos=p0.clone(), rot=r0.clone(), vel=v0.clone(), gravity=c["gravity"], reset=True, prop_cov=False)
        m6 = m6.double() if dtype == torch.float64 else m6
        r6 = _guard(lambda: feed(m6, 0, F, "BFH"), "prop_cov=False call", 0, "raises:nocov")
        compare("nocov", r6, 0)
        if r6.get("cov") is not None:
            raise Violation("C16.cov", "prop_cov=False returned a covariance", 0, "cov:nocov")
        out.probe("prop_cov=False"); out.ops += 1
    # --- (ii-d) the tensors handed to the constructor stay the caller's: changing them afterwards, or writing into one
    #     integrator's buffers, does not change what this or any other integrator computes
    if rng.H(s, "alias") % 4 == 0:
        pa, ra, va = p0.clone(), r0.clone(), v0.clone()
        m7 = pp.module.IMUPreintegrator(pos=pa, rot=ra, vel=va, gravity=c["gravity"], reset=True, **ctor_kw)
        m7 = m7.double() if dtype == torch.float64 else m7
        pa.add_(5.0); va.mul_(-3.0)                     # the caller re-uses its tensors
        boundary.refresh(pa, va)
        mdef = pp.module.IMUPreintegrator()             # a default-constructed integrator ...
        with torch.no_grad():
            mdef.vel.add_(7.0); mdef.pos.add_(-2.0)    # ... whose buffers are written in place
        r7 = _guard(lambda: feed(m7, 0, F, "BFH"), "reset=True call after the caller re-used the constructor tensors", 0, "raises:alias")
        compare("ctor-tensors-reused", r7, 0)
        m8 = pp.module.IMUPreintegrator(reset=True)
        if float(m8.vel.abs().max()) != 0.0 or float(m8.pos.abs().max()) != 0.0:
            raise Violation("C16.state", "a freshly default-constructed integrator does not start at rest at the origin after another "
                            "integrator's buffers were written in place (vel %s, pos %s)" % (m8.vel.flatten().tolist(), m8.pos.flatten().tolist()),
                            0, "state:shared-defaults")
        out.probe("ctor-tensors-reused"); out.ops += 1
    # --- (iii) ranks
    if B == 1:
        m3 = mk()
        r3 = _guard(lambda: feed(m3, 0, F, "FH"), "(F,H)-rank call with %d frames" % F, 0, "raises:FH")
        compare("rankFH", r3, 0)
        out.probe("rank-FH"); out.ops += 1
        if F <= 24:
            m4 = mk()
            last = None
            for k in range(F):
                last = _guard(lambda: feed(m4, k, k + 1, "H"), "(H)-rank call, frame %d" % k, k, "raises:H")
                compare("rankH#%d" % k, last, k, k, k + 1)
                _cov_check(last["cov"], eps, k, "rank-H frame %d" % k)
            out.probe("rank-H"); out.ops += F
            out.fault("fragmentation-cut", F - 1)
        out.sigs.add("F%d|rank" % min(F, 64))
        out.nontrivial = True
    for t, b4, nm in zip((dt, gyro, acc), before, ("dt", "gyro", "acc")):
        if not torch.equal(t, b4):
            raise Violation("C16.mutation", "input tensor '%s' was modified by the integrator" % nm, 0, "mutation")


def describe(prop):
    return {
        "rule": "one run = one stream of F frames (F = 1 + hash(seed) mod 200, plus a bias towards 2^k-1, 2^k, 2^k+1), "
                "batch 1-4, dt const or log-uniform in [1e-4,1], gyro/acc scales, known or integrated rotation, "
                "gravity 0 / 9.81 / 1.62, float32/float64, identity or random initial state; fed (i) whole, (ii) cut at "
                "seeded positions (few / many / all singletons / first or last frame alone) into one integrator with "
                "reset=False, (iii) for batch 1 through the (F,H) rank and frame by frame through the (H) rank; "
                "distinct = distinct (F, number of chunks, has a one-frame chunk, rank mode); non-trivial = the "
                "stream was fragmented or re-ranked",
        "fault_kinds": ["fragmentation-cut (chunk boundary at an arbitrary frame)", "rank change of the same stream"],
        "real": ["pypose.module.IMUPreintegrator (forward, integrate, predict, propagate_cov)", "pypose.cumprod / "
                 "cumops_", "SO3 Exp / Inv / product / Act / Jr / matrix"],
        "stub": ["the IMU data source"],
        "assumptions": ["with integrated rotation and non-zero gravity the reference accepts either end-point "
                        "rotation of the frame for gravity removal; chunk invariance and rank equivalence are strict",
                        "tolerance 40*eps*(F+8) relative to the largest reference magnitude"],
    }
