"""ctrlsim -- C20: stopping controllers against a reference automaton over loss / reject / reset
histories, and bounded liveness of the driver loops (scheduler.optimize, MPC, ICP).

Real code: StopOnPlateau, ReduceToBason (+ _Stepper.reset), StopOnPlateau.optimize, MPC.forward,
ICP.forward, LQR, LTI, svdtf, knn, LevenbergMarquardt / GaussNewton (optimize mode).
Stubs: the optimizer exposing loss/last/reject_count (bulk mode), the solver proxy that fails on
command (optimize mode), counting subclasses of the controllers.
"""
import math
from fractions import Fraction

import torch
import pypose as pp
from pypose.optim.optimizer import _Optimizer
from pypose.optim.scheduler import StopOnPlateau
from pypose.utils.stepper import ReduceToBason

from ..core import rng
from ..core.outcome import Violation

NAME = "ctrlsim"
SIM_UNIT = "controller steps"
BUDGET = {"quick": {"runs": 24000, "wall": 80}, "thorough": {"runs": 400000, "wall": 900}}
ISOLATE = "chunk"       # every chunk of runs in a forked child of a pristine worker: what a run sees of the process is a
                        # deterministic function of the runs before it in the same chunk (see runner.run_history_iso)
CHUNK = 128
SHRINK_LISTS = ("ops",)
PROBES = {"C20": ["stop:budget", "stop:patience", "stop:reject", "stop:tol", "step-after-stop",
                  "reset-after-stop", "reset-with-stale-patience", "exact-threshold", "batched-mixed",
                  "driver:optimize", "driver:optimize-again", "driver:optimize-ended-by-exception", "driver:mpc", "driver:icp", "driver:second-call", "first-step-inf", "verbose", "loss==tol", "tol-crossed-slowly", "mpc:default-stepper", "tiny-loss-magnitudes", "negative-loss"]}

DYADIC = (0.5, 0.25, 1.0, 0.125, 2.0)
KINDS = ("dec_big", "dec_small", "equal", "increase", "exact_thr", "below_tol", "rejected", "tol_above", "tol_cross", "negative")


class StepCap(BaseException):
    """Raised by the harness when a driver loop exceeds its step cap; a BaseException so that no `except Exception`
    in the code under test can swallow it."""


# --------------------------------------------------------------------------------------------
# generation

def generate(seed, tier, prop="C20"):
    r = rng.stream(seed, "config")
    x = r.random()
    mode = ("plateau" if x < 0.38 else "bason" if x < 0.80 else "mpc" if x < 0.87 else
            "icp" if x < 0.93 else "optimize")
    steps = r.choice([1, 2, 3, 4, 5, 6, 7, 8, 12]) if r.random() < 0.9 else r.randint(1, 40)
    patience = r.choice([1, 2, 3, 4, 5])
    dec = r.choice([0.0, 1e-3, 0.1]) if r.random() < 0.4 else (r.choice(DYADIC) if r.random() < 0.6
                                                             else rng.loguniform(r, 1e-6, 10.0))
    tol = r.choice([1e-5, 1e-3, 0.1, 0.0])
    rep = r.choice(["float", "t64", "t32"]) if mode == "plateau" else r.choice(["float", "np64", "nparr", "t64", "t32", "b64", "b32"])
    cfg = {"steps": steps, "patience": patience, "decreasing": dec, "tol": tol, "rep": rep,
           "batch": r.randint(2, 4) if rep.startswith("b") else 0, "verbose": r.random() < 0.2,
           "lscale": r.choice([1.0, 1.0, 1.0, 1e-9, 1e-25]) if mode == "bason" else 1.0}
    plan = {"engine": NAME, "seed": seed, "mode": mode, "config": cfg, "ops": []}
    ro = rng.stream(seed, "ops")
    if mode in ("plateau", "bason"):
        n = ro.randint(1, 40 if tier == "thorough" else 24)
        # swarm: per-run weights of the event alphabet
        w = {k: ro.choice([0, 1, 1, 2, 4]) for k in KINDS}
        if mode == "plateau":
            w["below_tol"] = 0; w["tol_above"] = 0; w["tol_cross"] = 0; w["negative"] = 0
        else:
            w["rejected"] = 0
            if tol == 0.0:
                w["below_tol"] = 0; w["tol_above"] = 0; w["tol_cross"] = 0
            w["tol_above"] = min(w["tol_above"], 1); w["tol_cross"] = min(w["tol_cross"], 2); w["negative"] = min(w["negative"], 1)
        if dec not in DYADIC:
            w["exact_thr"] = 0
        w["rejected"] = min(w["rejected"], 1)
        w["below_tol"] = min(w["below_tol"], 1)
        if sum(w.values()) == 0:
            w["dec_small"] = 1
        kinds = [k for k in KINDS if w[k] > 0]
        weights = [w[k] for k in kinds]
        p_reset = ro.choice([0, 0.05, 0.15]) if mode == "bason" else 0
        for i in range(n):
            if ro.random() < p_reset:
                plan["ops"].append({"id": i, "op": "reset"})
                continue
            if ro.random() < 0.1:
                plan["ops"].append({"id": i, "op": "read"})
                continue
            b = max(1, cfg["batch"])
            ks = [ro.choices(kinds, weights)[0] for _ in range(b)]
            if ro.random() < 0.6:
                ks = [ks[0]] * b           # whole batch moves together most of the time
            plan["ops"].append({"id": i, "op": "step", "kinds": ks,
                                "f": [round(ro.uniform(0.05, 0.95), 6) for _ in range(b)],
                                "j": ro.randint(1, 40)})
    else:
        plan["ops"] = [{"id": i, "op": "drive"} for i in range(ro.choice([1, 1, 2, 3]))]
        plan["config"].update({"n_state": ro.randint(1, 4), "n_ctrl": ro.randint(1, 3), "T": ro.randint(2, 6),
                               "npts": ro.randint(6, 30), "noise": ro.choice([0.0, 0.01, 0.1]),
                               "opt": ro.choice(["LM", "LM", "GN"]), "reject": ro.choice([0, 1, 2, 16]),
                               "p_fault": ro.choice([0.0, 0.2, 0.5]), "nonlin": ro.choice([0.0, 0.3, 1.0])})
        if mode == "icp":
            plan["config"]["tol"] = ro.choice([1e-5, 1e-3, 0.0])
    return plan


def brief(plan):
    c = plan["config"]
    return {"mode": plan["mode"], "config": {k: c[k] for k in ("steps", "patience", "decreasing", "tol", "rep")},
            "ops": [(o["op"] if o["op"] != "step" else "/".join(o["kinds"])) for o in plan["ops"]][:40]}


def simplify(plan):
    c = plan["config"]
    cands = []
    if c.get("rep") not in ("float",) and plan["mode"] in ("plateau", "bason"):
        p = dict(plan); p["config"] = dict(c, rep="float", batch=0)
        p["ops"] = [dict(o, kinds=o["kinds"][:1], f=o["f"][:1]) if o["op"] == "step" else o for o in plan["ops"]]
        cands.append(p)
    for key, small in (("steps", 1), ("steps", 2), ("patience", 1), ("patience", 2)):
        if c[key] > small:
            p = dict(plan); p["config"] = dict(c, **{key: small}); cands.append(p)
    for i, o in enumerate(plan["ops"]):
        if o["op"] == "step":
            for simple in ("dec_big", "equal"):
                if any(k != simple for k in o["kinds"]) and o["kinds"][0] not in ("dec_big", "equal"):
                    p = dict(plan); p["ops"] = list(plan["ops"])
                    p["ops"][i] = dict(o, kinds=[simple] * len(o["kinds"]))
                    cands.append(p)
                    break
    return cands


# --------------------------------------------------------------------------------------------
# reference automaton, written from the statement of C20

class RefCtl:
    def __init__(self, steps, patience):
        self.steps, self.patience = steps, patience
        self.reset()

    def reset(self):
        self.n, self.pc, self.stopped, self.cause = 0, 0, False, None

    def step(self, decreased_enough, rejected=False, below_tol=False):
        """One controller step.  Returns the set of stop causes that fire at this step."""
        self.n += 1
        self.pc = 0 if decreased_enough else self.pc + 1
        causes = []
        if self.n >= self.steps:
            causes.append("budget")
        if self.pc >= self.patience:
            causes.append("patience")
        if rejected:
            causes.append("reject")
        if below_tol:
            causes.append("tol")
        if causes and not self.stopped:
            self.stopped, self.cause = True, causes
        return causes


def _exact(x):
    x = float(x)
    return Fraction(x) if math.isfinite(x) else x


def _mk(rep, vals):
    """Concrete representation of a loss value / batch of loss values."""
    if rep == "float":
        return float(vals[0])
    if rep == "np64":
        import numpy as np
        return np.float64(vals[0])
    if rep == "nparr":
        # the caller keeps ONE numpy buffer and overwrites it with every new loss
        import numpy as np
        if not hasattr(_mk, "buf") or _mk.buf is None:
            _mk.buf = np.zeros((), dtype=np.float64)
        _mk.buf[...] = vals[0]
        return _mk.buf
    if rep == "t64":
        return torch.tensor(float(vals[0]), dtype=torch.float64)
    if rep == "t32":
        return torch.tensor(float(vals[0]), dtype=torch.float32)
    return torch.tensor([float(v) for v in vals], dtype=torch.float64 if rep == "b64" else torch.float32)


def _vals(x):
    import numpy as np
    if isinstance(x, np.ndarray):
        return [float(v) for v in x.reshape(-1).tolist()]
    if torch.is_tensor(x):
        return [float(v) for v in x.reshape(-1).tolist()]
    return [float(x)]


def _eps(rep):
    return 1.2e-7 if rep.endswith("32") else 2.3e-16


class StubOpt(_Optimizer):
    """Minimal optimizer: exactly the attributes StopOnPlateau reads."""
    def __init__(self, with_reject):
        super().__init__([torch.nn.Parameter(torch.zeros(1))], defaults={})
        self.loss, self.last = None, None
        if with_reject:
            self.reject, self.reject_count = 16, 0     # the attributes LevenbergMarquardt exposes


def _cmp_state(tag, ctl, ref, i, was_stopped, key_extra=""):
    got = bool(ctl.continual())
    if got != (not ref.stopped):
        raise Violation("C20.continual", "%s: after op %d continual()=%s but the reference automaton says %s "
                        "(n=%d pc=%d cause=%s; steps=%d patience=%d)" %
                        (tag, i, got, not ref.stopped, ref.n, ref.pc, ref.cause, ref.steps, ref.patience),
                        step=i, key=tag + ":continual" + key_extra)
    if not was_stopped:
        # counters are compared up to and including the stopping step; the statement says nothing
        # about them once the controller has stopped
        if int(ctl.steps) != ref.n or int(ctl.patience_count) != ref.pc:
            raise Violation("C20.counters", "%s: after op %d steps=%s patience_count=%s, reference n=%d pc=%d" %
                            (tag, i, ctl.steps, ctl.patience_count, ref.n, ref.pc), step=i,
                            key=tag + ":counters" + key_extra)


# --------------------------------------------------------------------------------------------
# bulk modes

def _exec_plateau(plan, out, tr):
    c = plan["config"]
    d, rep = float(c["decreasing"]), c["rep"]
    opt = StubOpt(with_reject=True)
    ctl = StopOnPlateau(opt, steps=c["steps"], patience=c["patience"], decreasing=d, verbose=bool(c.get("verbose")))
    ref = RefCtl(c["steps"], c["patience"])
    scale = 500.0 * d + 5.0
    cur = scale
    if not ctl.continual():
        raise Violation("C20.continual", "fresh StopOnPlateau reports continual() False", 0, "plateau:fresh")
    for o in plan["ops"]:
        i = o["id"]
        if o["op"] == "read":
            _cmp_state("plateau", ctl, ref, i, True)
            if i % 2 == 0:
                # checkpoint / resume: the scheduler's state goes through state_dict() into a newly built scheduler,
                # which carries on (stopped stays stopped, counters as they were)
                sd = dict(ctl.state_dict())
                ctl2 = StopOnPlateau(opt, steps=c["steps"], patience=c["patience"], decreasing=d, verbose=bool(c.get("verbose")))
                ctl2.load_state_dict(sd)
                ctl = ctl2
                out.probe("scheduler:state_dict-roundtrip")
                _cmp_state("plateau", ctl, ref, i, True, ":resumed")
            continue
        if o["op"] != "step":
            continue
        kind, f, j = o["kinds"][0], o["f"][0], o["j"]
        rejected = kind == "rejected"
        last = cur
        if kind == "exact_thr" and d in DYADIC:
            last, loss = d * (j + 1), d * j
            out.probe("exact-threshold")
        elif kind == "dec_big":
            loss = last - (d * (1.5 + 8 * f) if d > 0 else last * 0.2 * f)
        elif kind == "dec_small":
            loss = last - d * 0.6 * f
        elif kind == "increase":
            loss = last + (d if d > 0 else 1.0) * (0.1 + 3 * f)
        else:                       # equal, rejected (a rejected LM call reports the old loss), below_tol n/a
            loss = last
        if loss <= 0:
            last = scale; loss = last
        vl, vo = _mk(rep, [last]), _mk(rep, [loss])
        el, eo = _exact(_vals(vl)[0]), _exact(_vals(vo)[0])
        dd = _exact(float(_mk(rep, [d])) if rep != "float" else d)     # the threshold as the comparison sees it
        decr = el - eo
        margin = Fraction(_eps(rep)) * 1000 * max(abs(el), abs(eo), 1)
        if decr != dd and abs(decr - dd) < margin:
            out.declined("C20.near-threshold"); continue
        dec_ok = not (decr < dd)
        opt.last, opt.loss, opt.reject_count = vl, vo, (1 + j % 3 if rejected else 0)
        was = ref.stopped
        if was:
            out.probe("step-after-stop")
        causes = ref.step(dec_ok, rejected=rejected)
        for cz in causes:
            if not was:
                out.probe("stop:" + cz)
        ctl.step(vo)
        cur = float(_vals(vo)[0])
        out.sim_time += 1; out.ops += 1
        out.sigs.add("P|%d|%d|n%d|pc%d|%s|%s" % (min(c["steps"], 9), c["patience"], min(ref.n, 9), ref.pc, was, kind))
        tr.ev("pstep", i, kind, float(cur), bool(ctl.continual()), int(ctl.steps), int(ctl.patience_count))
        _cmp_state("plateau", ctl, ref, i, was)
    out.nontrivial = ref.stopped


def _exec_bason(plan, out, tr):
    c = plan["config"]
    _mk.buf = None
    d, rep = float(c["decreasing"]), c["rep"]
    ls = float(c.get("lscale", 1.0))
    if rep.endswith("32") and ls < 1e-20:
        ls = 1e-20
    tol = float(c["tol"]) * ls              # the whole loss axis (tolerance included) scaled to tiny magnitudes
    if ls != 1.0:
        out.probe("tiny-loss-magnitudes")
    b = max(1, c["batch"])
    if rng.H(plan["seed"], "positional-ctor") % 3 == 0:
        # the documented positional order: ReduceToBason(steps, patience, decreasing, tol, verbose)
        mk = lambda: ReduceToBason(c["steps"], c["patience"], d, tol, bool(c.get("verbose")))
        out.probe("ctor:positional")
    else:
        mk = lambda: ReduceToBason(steps=c["steps"], patience=c["patience"], decreasing=d, tol=tol, verbose=bool(c.get("verbose")))
    ctl = mk()
    ref = RefCtl(c["steps"], c["patience"])
    base = (max(tol, 1e-6 * ls) * 1e5 + 3.0 * ls)
    cur = [base * (1 + 0.1 * k) for k in range(b)]
    last = [math.inf] * b
    if not ctl.continual():
        raise Violation("C20.continual", "fresh ReduceToBason reports continual() False", 0, "bason:fresh")
    for o in plan["ops"]:
        i = o["id"]
        if o["op"] == "read":
            _cmp_state("bason", ctl, ref, i, True)
            continue
        if o["op"] == "reset":
            if ref.stopped:
                out.probe("reset-after-stop")
            if ref.pc > 0:
                out.probe("reset-with-stale-patience")
            ctl.reset(); ref.reset()
            last = [math.inf] * b
            fresh = mk()
            obs = lambda s: (int(s.steps), int(s.patience_count), bool(s.continual()), _vals(s.last))
            tr.ev("reset", i, list(obs(ctl)[:3]))
            if obs(ctl) != obs(fresh):
                raise Violation("C20.reset", "after reset() the controller state (steps, patience_count, continual, "
                                "last)=%s differs from a freshly constructed one %s" % (obs(ctl), obs(fresh)),
                                step=i, key="bason:reset-state")
            out.ops += 1
            continue
        new = []
        for k in range(b):
            kind, f = o["kinds"][min(k, len(o["kinds"]) - 1)], o["f"][min(k, len(o["f"]) - 1)]
            prev = cur[k]
            if kind == "exact_thr" and d in DYADIC:
                # (last-loss)/loss == d exactly needs last = (1+d)*loss: rebase this element
                m = {0.5: (3, 2), 0.25: (5, 4), 1.0: (2, 1), 0.125: (9, 8), 2.0: (3, 1)}[d]
                if math.isfinite(last[k]) and abs(last[k] - m[0] * base) < 1e-9 * base:
                    v = m[1] * base
                    out.probe("exact-threshold")
                else:
                    v = m[0] * base     # set-up step: next exact_thr lands on the threshold
            elif kind == "dec_big":
                v = prev / (1 + (d * (1.5 + 8 * f) if d > 0 else 0.2 * f + 0.01))
            elif kind == "dec_small":
                v = prev / (1 + d * 0.6 * f)
            elif kind == "increase":
                v = prev * (1.05 + f)
            elif kind == "negative":
                v = -base * (0.1 + f)            # a negative loss (e.g. an LQ cost with a linear term): below any tol >= 0
            elif kind == "tol_above" and tol > 0:
                v = tol * (1.01 + 0.05 * f)      # just above the tolerance
            elif kind == "tol_cross" and tol > 0:
                v = tol * (0.999 - 0.03 * f)     # just below it: a crossing with a tiny relative decrease
                out.probe("tol-crossed-slowly")
            elif kind == "below_tol" and tol > 0 and o["j"] % 5 == 0:
                v = tol                          # exactly at the tolerance: not below it
                out.probe("loss==tol")
            elif kind == "below_tol" and tol > 0:
                v = tol * (0.01 + 0.8 * f)
            else:
                v = prev
            if kind not in ("below_tol", "tol_above", "tol_cross", "negative") and v < 20 * tol:
                v = base * (1 + f)          # keep away from tol unless asked for
            new.append(v)
        vo = _mk(rep, new)
        vals = _vals(vo)
        # what the controller compares: a Python float is turned into a tensor of the default dtype (float32) by
        # torch.tensor(loss), and the thresholds are compared in that tensor's dtype
        seen_dtype = vo.dtype if torch.is_tensor(vo) else (torch.float32 if rep == "float" else torch.float64)
        if rep == "float":
            vals = [float(torch.tensor(v, dtype=torch.float32)) for v in vals]
        eo = [_exact(v) for v in vals]
        dd = _exact(float(torch.tensor(d, dtype=seen_dtype)))
        tt = _exact(float(torch.tensor(tol, dtype=seen_dtype)))
        eps_seen = 1.2e-7 if seen_dtype == torch.float32 else 2.3e-16
        fails, near = [], False
        if all(e < 0 for e in eo) and all(e < tt for e in eo):
            # every loss negative, hence below tol: the tol clause stops the loop at this step whatever the (ill-defined)
            # relative decrease says; nothing after this step is judged in this run
            was = ref.stopped
            ref.n += 1
            causes = ["tol"] + (["budget"] if ref.n >= ref.steps else [])
            if not ref.stopped:
                ref.stopped, ref.cause = True, causes
            ctl.step(vo)
            out.probe("negative-loss")
            if bool(ctl.continual()):
                raise Violation("C20.continual", "bason: after op %d (all losses negative, tol=%g) continual() is still True" % (i, tol),
                                i, "bason:continual:negative")
            out.sim_time += 1; out.ops += 1
            break
        if any(e <= 0 for e in eo):
            out.declined("C20.loss-outside-alphabet"); continue        # e.g. a value that rounds to 0 in float32
        for k in range(b):
            if not math.isfinite(last[k]):
                fails.append(False); out.probe("first-step-inf"); continue
            rel = (_exact(last[k]) - eo[k]) / eo[k]
            if rel != dd and abs(rel - dd) < Fraction(eps_seen) * 2000 * max(abs(rel), abs(dd), 1):
                near = True
            fails.append(rel < dd)
        below = [e < tt for e in eo]
        if any(e != tt and abs(e - tt) < Fraction(eps_seen) * 1000 * tt for e in eo):
            near = True
        if near:
            out.declined("C20.near-threshold"); continue
        if len(set(fails)) > 1 or len(set(below)) > 1:
            out.probe("batched-mixed")
        was = ref.stopped
        if was:
            out.probe("step-after-stop")
        causes = ref.step(not all(fails), below_tol=all(below))
        for cz in causes:
            if not was:
                out.probe("stop:" + cz)
        ctl.step(vo)
        last = vals
        cur = vals
        out.sim_time += 1; out.ops += 1
        out.sigs.add("B|%d|%d|n%d|pc%d|%s|%s|%s" % (min(c["steps"], 9), c["patience"], min(ref.n, 9), ref.pc, was,
                                                   "+".join(sorted(set(o["kinds"]))), all(below)))
        tr.ev("bstep", i, vals, bool(ctl.continual()), int(ctl.steps), int(ctl.patience_count))
        _cmp_state("bason", ctl, ref, i, was)
    out.nontrivial = ref.stopped or any(o["op"] == "reset" for o in plan["ops"])


# --------------------------------------------------------------------------------------------
# driver loops

class CountingBason(ReduceToBason):
    def __init__(self, cap, **kw):
        super().__init__(**kw)
        self.cap, self.calls, self.history = cap, 0, []

    def reset(self):
        super().reset()
        self.calls_this = 0

    def step(self, loss):
        self.calls += 1
        self.calls_this = getattr(self, "calls_this", 0) + 1
        if self.calls_this > self.cap:
            raise StepCap()
        self.history.append(loss.detach().clone() if torch.is_tensor(loss) else loss)
        return super().step(loss)



def _ref_over_history(stepper, cfg, budget, out, what, step, key):
    """The losses a driver fed to its stepper, replayed through the reference automaton: the driver loop must
    have ended exactly at the automaton's first stop (not earlier, not later)."""
    ref = RefCtl(budget, cfg["patience"])
    d, tol = float(cfg["decreasing"]), float(cfg["tol"])
    last = None
    hist = stepper.history[-stepper.calls_this:] if stepper.calls_this else []
    for k, loss in enumerate(hist):
        vals = _vals(loss)
        if any((not math.isfinite(v)) or v <= 0 for v in vals):
            out.declined("C20.driver(loss outside alphabet)"); return
        fails = []
        for j, v in enumerate(vals):
            if last is None:
                fails.append(False); continue
            rel = (last[j] - v) / v
            if abs(rel - d) <= 1e-6 * max(abs(rel), abs(d), 1e-300) or abs(v - tol) <= 1e-6 * tol:
                out.declined("C20.near-threshold"); return
            fails.append(rel < d)
        below = all(v < tol for v in vals)
        ref.step(not all(fails), below_tol=below)
        last = vals
        if ref.stopped and k < len(hist) - 1:
            raise Violation("C20.continual", "%s: the loop went on for %d controller steps although the reference "
                            "automaton stops at step %d (%s)" % (what, len(hist), k + 1, ref.cause), step, key + ":late")
    if hist and not ref.stopped:
        raise Violation("C20.continual", "%s: the loop ended after %d controller steps although no stop condition had "
                        "fired (budget %d, patience %d)" % (what, len(hist), budget, cfg["patience"]), step, key + ":early")


def _drive_mpc(plan, out, tr):
    c = plan["config"]
    s = plan["seed"]
    ns, nc, T, steps = c["n_state"], c["n_ctrl"], c["T"], c["steps"]
    dt = torch.float64
    A = rng.randn(s, ("A",), (1, ns, ns), dt, 0.4) + 0.5 * torch.eye(ns, dtype=dt)
    B = rng.randn(s, ("B",), (1, ns, nc), dt)
    C = torch.eye(ns, dtype=dt).unsqueeze(0)
    D = torch.zeros(1, ns, nc, dtype=dt)
    c1 = rng.randn(s, ("c1",), (1, ns), dt, 0.3)
    c2 = torch.zeros(1, ns, dtype=dt)
    M = rng.randn(s, ("Q",), (ns + nc, ns + nc), dt)
    Q = (M @ M.T + torch.eye(ns + nc, dtype=dt)).repeat(1, T, 1, 1)
    p = rng.randn(s, ("p",), (1, T, ns + nc), dt)
    sysm = pp.module.LTI(A, B, C, D, c1, c2)
    stepper = CountingBason(cap=10 * steps + 5, steps=steps, patience=c["patience"],
                            decreasing=c["decreasing"], tol=c["tol"])
    mpc = pp.module.MPC(sysm, Q, p, T, stepper=stepper)
    for o in plan["ops"]:
        x0 = rng.randn(s, ("x0", o["id"]), (1, ns), dt)
        try:
            x, u, cost = mpc(1, x0)
        except StepCap:
            raise Violation("C20.liveness", "MPC.forward made more than %d stepper steps with steps=%d: the "
                            "driver loop does not stop" % (stepper.cap, steps), o["id"], "mpc:cap")
        n = stepper.calls_this
        out.sim_time += n; out.ops += 1
        out.probe("driver:mpc")
        if o["id"] > 0:
            out.probe("driver:second-call")
        tr.ev("mpc", o["id"], n, cost)
        out.sigs.add("MPC|%d|%d|%d|%s" % (min(steps, 9), min(n, 9), o["id"], c["patience"]))
        if n > steps:
            raise Violation("C20.budget", "MPC.forward call #%d made %d controller steps, budget steps=%d" %
                            (o["id"], n, steps), o["id"], "mpc:budget")
        # MPC documents 'n-1 loops, 1 loop with gradient': the stepper inside runs with budget steps-1 (at least one loop)
        _ref_over_history(stepper, c, max(steps - 1, 1) if steps - 1 >= 1 else 1, out, "MPC.forward call #%d" % o["id"], o["id"], "mpc:loop")
    out.nontrivial = True


def _drive_mpc_default(plan, out, tr):
    """MPC objects constructed without a stepper: each owns the documented default ReduceToBason(steps=10) (minus
    MPC's one reserved solve).  Observed through a forward hook on the inner LQR: every solve's cost."""
    from .lqrsim import SmoothNLS
    c, s = plan["config"], plan["seed"]
    ns, nc, T = c["n_state"], c["n_ctrl"], c["T"]
    dt = torch.float64
    W1 = rng.randn(s, ("W1",), (ns, ns), dt, 0.6); W2 = rng.randn(s, ("W2",), (ns, ns), dt, 0.6); W3 = rng.randn(s, ("W3",), (ns, nc), dt)
    M = rng.randn(s, ("Q",), (ns + nc, ns + nc), dt)
    Q = (M @ M.T + torch.eye(ns + nc, dtype=dt)).repeat(1, T, 1, 1)
    p = rng.randn(s, ("p",), (1, T, ns + nc), dt)
    cfg = {"patience": 5, "decreasing": 1e-3, "tol": 1e-5}
    for o in plan["ops"] + [{"id": 90 + k_} for k_ in range(6)]:
        sysm = SmoothNLS(W1, W2, W3, 1.0, 0.0)
        mpc = pp.module.MPC(sysm, Q, p, T)
        costs = []
        h = mpc.lqr.register_forward_hook(lambda m_, i_, o_: costs.append(o_[2].detach().clone()))
        x0 = rng.randn(s, ("x0", o["id"]), (1, ns), dt)
        mpc(1, x0)
        h.remove()
        loops = costs[:-1]                    # the last solve is the reserved one after the loop
        class _H: pass
        st = _H(); st.history = loops; st.calls_this = len(loops)
        out.sim_time += len(loops); out.ops += 1
        out.probe("mpc:default-stepper")
        tr.ev("mpc-default", o["id"], len(loops), costs[-1])
        if len(loops) > 10:
            raise Violation("C20.budget", "default-constructed MPC #%d made %d controller steps, default budget steps=10" %
                            (o["id"], len(loops)), o["id"], "mpc-default:budget")
        _ref_over_history(st, cfg, 9, out, "default-constructed MPC (object #%d in this process)" % o["id"], o["id"], "mpc-default:loop")
    out.nontrivial = True


def _drive_icp(plan, out, tr):
    c = plan["config"]
    s = plan["seed"]
    steps, n = c["steps"], c["npts"]
    dt = torch.float64
    Bc = 2 if rng.H(s, "icp-batch") % 3 == 0 else 1
    tgt = rng.randn(s, ("tgt",), (Bc, n, 3), dt)
    T = pp.se3(rng.randn(s, ("T",), (Bc, 6), dt, 0.15)).Exp()
    src = T.unsqueeze(-2).Act(tgt) + c["noise"] * rng.randn(s, ("noise",), (Bc, n, 3), dt)
    stepper = CountingBason(cap=10 * steps + 5, steps=steps, patience=c["patience"],
                            decreasing=c["decreasing"], tol=c["tol"])
    icp = pp.module.ICP(stepper=stepper)
    for o in plan["ops"]:
        try:
            res = icp(src, tgt)
        except StepCap:
            raise Violation("C20.liveness", "ICP.forward made more than %d stepper steps with steps=%d" %
                            (stepper.cap, steps), o["id"], "icp:cap")
        k = stepper.calls_this
        out.sim_time += k; out.ops += 1
        out.probe("driver:icp")
        if o["id"] > 0:
            out.probe("driver:second-call")
        tr.ev("icp", o["id"], k, res)
        out.sigs.add("ICP|%d|%d|%d|%s" % (min(steps, 9), min(k, 9), o["id"], c["patience"]))
        if k > steps:
            raise Violation("C20.budget", "ICP.forward call #%d made %d controller steps, budget steps=%d" %
                            (o["id"], k, steps), o["id"], "icp:budget")
        _ref_over_history(stepper, c, steps, out, "ICP.forward call #%d" % o["id"], o["id"], "icp:loop")
    out.nontrivial = True


class _PoseInv(torch.nn.Module):
    def __init__(self, init, nonlin):
        super().__init__()
        self.pose = pp.Parameter(init)
        self.nonlin = nonlin

    def forward(self, inp):
        e = (self.pose.Exp() @ inp).Log().tensor()
        return e + self.nonlin * e ** 3


class _FlakySolver(torch.nn.Module):
    """Solver proxy: the real Cholesky/PINV, or a fault decided by the run's fault stream."""
    def __init__(self, inner, r, p_fault, out):
        super().__init__()
        self.inner, self.r, self.p, self.out, self.calls, self.cap = inner, r, p_fault, out, 0, 0

    def forward(self, A, b):
        self.calls += 1
        if self.cap and self.calls > self.cap:
            raise StepCap()
        x = self.r.random()
        if x < self.p / 2:
            self.out.fault("solver-raise")
            raise RuntimeError("injected solver failure")
        D = self.inner(A, b)
        if x < self.p:
            self.out.fault("solver-overshoot")
            return -8.0 * D
        return D


class RecordingPlateau(StopOnPlateau):
    def __init__(self, *a, cap=0, **kw):
        super().__init__(*a, **kw)
        self.cap, self.seen = cap, []

    def step(self, loss):
        if len(self.seen) >= self.cap:
            raise StepCap()
        o = self.optimizer
        # whether the optimizer's last step involved a rejection is observed at the solver seam (a second solve inside
        # one LM step means the first trial was rejected), not taken from the optimizer's own counter
        sv = getattr(self, "solver_ref", None)
        solves = (sv.calls - getattr(self, "_calls_seen", 0)) if sv is not None else 0
        self._calls_seen = sv.calls if sv is not None else 0
        self.solves_per_step = getattr(self, "solves_per_step", []) + [solves]
        self.seen.append((float(o.last), float(o.loss), int(getattr(o, "reject_count", 0))))
        tl = getattr(self, "true_loss", None)
        self.true = getattr(self, "true", []) + [tl() if tl is not None else float(o.loss)]
        super().step(loss)
        self.after = getattr(self, "after", []) + [bool(self.continual())]


def _drive_optimize(plan, out, tr):
    c = plan["config"]
    s = plan["seed"]
    steps = c["steps"]
    dt = torch.float64
    inp = pp.se3(rng.randn(s, ("inp",), (2, 6), dt)).Exp()
    fr = rng.stream(s, "faults")
    for o in plan["ops"]:
        model = _PoseInv(pp.se3(rng.randn(s, ("init", o["id"]), (2, 6), dt, 0.5)), c["nonlin"])
        # a robust kernel in half of the drives: "the loss" of the statement is then the robust loss
        kd = [None, None, 0.3, 1.0][rng.H(s, "kernel", o["id"]) % 4]
        kern = pp.optim.kernel.Huber(kd) if kd is not None else None
        if kern is not None:
            out.probe("driver:optimize-with-kernel")
        if c["opt"] == "LM":
            solver = _FlakySolver(pp.optim.solver.Cholesky(), fr, c["p_fault"], out)
            opt = pp.optim.LM(model, solver=solver, strategy=pp.optim.strategy.Adaptive(damping=1e-3),
                              reject=c["reject"], kernel=kern)
        else:
            solver = _FlakySolver(pp.optim.solver.PINV(), fr, c["p_fault"] if o["id"] % 2 else 0.0, out)
            opt = pp.optim.GN(model, solver=solver, kernel=kern)

        def true_loss(model=model, kern=kern):
            # the loss of the model as the harness evaluates it: sum_i rho(|e_i|^2)
            with torch.no_grad():
                x = model(inp).square().sum(-1)
                return float((kern(x) if kern is not None else x).sum())
        L0 = true_loss()
        sch = RecordingPlateau(opt, steps=steps, patience=c["patience"], decreasing=c["decreasing"],
                               cap=10 * steps + 5)
        sch.solver_ref = solver
        sch.true_loss = true_loss
        import io, contextlib
        solver.cap = (c["reject"] + 2) * (10 * steps + 5)
        escaped = None
        try:
            with contextlib.redirect_stdout(io.StringIO()):
                sch.optimize(inp)
        except StepCap:
            raise Violation("C20.liveness", "StopOnPlateau.optimize did not stop: more than %d scheduler steps or %d solver "
                            "calls with steps=%d" % (sch.cap, solver.cap, steps), o["id"], "optimize:cap")
        except RuntimeError as e:
            if "injected solver failure" not in str(e):
                raise
            escaped = e         # GN lets a solver failure escape: the loop ended, by exception
            out.probe("driver:optimize-ended-by-exception")
        n = len(sch.seen)
        if escaped is not None:
            if n > steps:
                raise Violation("C20.budget", "optimize() made %d scheduler steps, budget steps=%d" % (n, steps), o["id"], "optimize:budget")
            out.sim_time += n; out.ops += 1
            continue
        # a stopped scheduler stays stopped: a second optimize() on the same object must not step again
        calls_before = solver.calls
        try:
            with contextlib.redirect_stdout(io.StringIO()):
                sch.optimize(inp)
        except StepCap:
            raise Violation("C20.liveness", "second optimize() on a stopped scheduler exceeded the step cap", o["id"], "optimize:cap2")
        if len(sch.seen) != n or solver.calls != calls_before:
            raise Violation("C20.continual", "optimize() on a scheduler that had already stopped made %d more scheduler step(s) and "
                            "%d more solver call(s) (budget steps=%d, %d steps already made)" %
                            (len(sch.seen) - n, solver.calls - calls_before, steps, n), o["id"], "optimize:restep")
        out.probe("driver:optimize-again")
        out.sim_time += n; out.ops += 1
        out.probe("driver:optimize")
        tr.ev("optimize", o["id"], n, solver.calls, [list(x) for x in sch.seen])
        out.sigs.add("OPT|%s|%d|%d|%d" % (c["opt"], min(steps, 9), min(n, 9), c["patience"]))
        if n > steps:
            raise Violation("C20.budget", "optimize() made %d scheduler steps, budget steps=%d" % (n, steps),
                            o["id"], "optimize:budget")
        if c["opt"] == "GN" and solver.calls > steps:
            raise Violation("C20.budget", "optimize() made %d optimizer steps, budget steps=%d" %
                            (solver.calls, steps), o["id"], "optimize:budget-opt")
        # the real optimizer's (last, loss, reject_count) stream through the reference automaton
        ref = RefCtl(steps, c["patience"])
        d = float(c["decreasing"])
        for k, (last, loss, rc) in enumerate(sch.seen):
            # the decrease of the loss is the harness's own: loss of the model before and after the optimizer step
            tprev = L0 if k == 0 else sch.true[k - 1]
            decr = tprev - sch.true[k]
            if not (abs(decr - (last - loss)) <= 1e-9 * max(abs(tprev), abs(sch.true[k]), 1.0)):
                out.probe("optimizer-losses-disagree-with-harness")
            if not math.isfinite(decr):
                out.declined("C20.loss-nonfinite"); break
            if abs(decr - d) < 1e-9 * max(abs(tprev), abs(sch.true[k]), 1.0) and decr != d:
                out.declined("C20.near-threshold"); break
            was = ref.stopped
            seam_rejected = c["opt"] == "LM" and sch.solves_per_step[k] >= 2
            if seam_rejected != (rc > 0):
                out.probe("optimizer-counter-disagrees-with-seam")
            causes = ref.step(not (decr < d), rejected=seam_rejected if c["opt"] == "LM" else rc > 0)
            if not was:
                for cz in causes:
                    out.probe("stop:" + cz)
            if sch.after[k] != (not ref.stopped):
                raise Violation("C20.continual", "optimize(): after scheduler step %d (loss of the model %r -> %r; optimizer "
                                "reports last=%r loss=%r reject_count=%d) continual()=%s, reference says %s" %
                                (k, tprev, sch.true[k], last, loss, rc, sch.after[k], not ref.stopped), o["id"], "optimize:continual")
        else:
            if n and not ref.stopped:
                raise Violation("C20.liveness", "optimize() returned after %d steps although no stop condition of "
                                "the reference automaton had fired" % n, o["id"], "optimize:early")
            # the optimisation is continued with a fresh scheduler on the same optimizer: its steps are judged on
            # their own (budget, patience and "the optimizer's last step involved a rejection" all start afresh)
            if rng.H(s, "continue", o["id"]) % 2 == 0:
                steps2 = 1 + rng.H(s, "continue-steps", o["id"]) % 4
                sch2 = RecordingPlateau(opt, steps=steps2, patience=c["patience"], decreasing=c["decreasing"],
                                        cap=10 * steps2 + 5)
                sch2.solver_ref = solver
                sch2._calls_seen = solver.calls
                sch2.true_loss = true_loss
                L1 = true_loss()
                solver.cap = solver.calls + (c["reject"] + 2) * (10 * steps2 + 5)
                esc2 = False
                try:
                    with contextlib.redirect_stdout(io.StringIO()):
                        sch2.optimize(inp)
                except StepCap:
                    raise Violation("C20.liveness", "optimize() of a fresh scheduler on a used optimizer did not stop within "
                                    "the cap (steps=%d)" % steps2, o["id"], "optimize:cap3")
                except RuntimeError as e:
                    if "injected solver failure" not in str(e):
                        raise
                    esc2 = True
                out.probe("driver:optimize-continued")
                out.sim_time += len(sch2.seen)
                if len(sch2.seen) > steps2:
                    raise Violation("C20.budget", "continued optimize() made %d scheduler steps, budget steps=%d" %
                                    (len(sch2.seen), steps2), o["id"], "optimize:budget")
                ref2 = RefCtl(steps2, c["patience"])
                for k, (last, loss, rc) in enumerate(sch2.seen):
                    tprev = L1 if k == 0 else sch2.true[k - 1]
                    decr = tprev - sch2.true[k]
                    if not math.isfinite(decr):
                        out.declined("C20.loss-nonfinite"); break
                    if abs(decr - d) < 1e-9 * max(abs(tprev), abs(sch2.true[k]), 1.0) and decr != d:
                        out.declined("C20.near-threshold"); break
                    rej = (sch2.solves_per_step[k] >= 2) if c["opt"] == "LM" else rc > 0
                    ref2.step(not (decr < d), rejected=rej)
                    if k < len(sch2.after) and sch2.after[k] != (not ref2.stopped):
                        raise Violation("C20.continual", "fresh scheduler on a used optimizer: after its step %d (last=%r "
                                        "loss=%r, %d solve(s) in the optimizer step, reject_count=%d) continual()=%s, "
                                        "reference says %s" % (k, last, loss, sch2.solves_per_step[k], rc, sch2.after[k],
                                                               not ref2.stopped), o["id"], "optimize:continued")
                else:
                    if not esc2 and sch2.seen and not ref2.stopped:
                        raise Violation("C20.liveness", "continued optimize() returned after %d steps although no stop "
                                        "condition had fired" % len(sch2.seen), o["id"], "optimize:early")
    out.nontrivial = True


def execute(plan, prop, out, tr):
    mode = plan["mode"]
    tr.ev("plan", mode, plan["config"])
    if plan["config"].get("verbose") and mode in ("plateau", "bason"):
        out.probe("verbose")
        import io, contextlib
        with contextlib.redirect_stdout(io.StringIO()):
            (_exec_plateau if mode == "plateau" else _exec_bason)(plan, out, tr)
        return
    if mode == "plateau":
        _exec_plateau(plan, out, tr)
    elif mode == "bason":
        _exec_bason(plan, out, tr)
    elif mode == "mpc":
        if rng.H(plan["seed"], "mpc-default") % 4 == 0:
            _drive_mpc_default(plan, out, tr)
        else:
            _drive_mpc(plan, out, tr)
    elif mode == "icp":
        _drive_icp(plan, out, tr)
    else:
        _drive_optimize(plan, out, tr)


def describe(prop):
    return {
        "rule": "one run = one controller configuration (steps, patience, decreasing, tol, loss representation: "
                "python float / 0-d / batched tensor in float32 / float64) and a seeded history of <= 40 events "
                "from {decrease>=threshold, decrease<threshold, equal, increase, exactly-at-threshold, below-tol, "
                "rejected} interleaved with reset() and extra reads, or 1-3 calls of a driver loop (optimize / MPC "
                "/ ICP) on one object; distinct = distinct (controller, steps, patience, reference state (n, pc, "
                "stopped), event) transitions taken; non-trivial = the history reached a stop cause or a reset",
        "fault_kinds": ["solver-raise", "solver-overshoot (optimize mode)", "rejected-step event",
                        "reset at arbitrary point", "step after stop"],
        "real": ["pypose.optim.scheduler.StopOnPlateau (step, optimize)", "pypose.utils.stepper.ReduceToBason / "
                 "_Stepper.reset", "pypose.module.MPC.forward", "pypose.module.ICP.forward", "pypose.module.LQR",
                 "pypose.module.LTI", "pypose.svdtf / knn", "pypose.optim.LM / GN (optimize mode)"],
        "stub": ["optimizer exposing loss/last/reject_count (bulk plateau mode)", "solver proxy deciding "
                 "honest/raise/overshoot (optimize mode)", "counting subclasses of the controllers",
                 "generated systems, clouds and pose data"],
        "assumptions": ["losses are positive finite numbers (the property's alphabet); events within 1e3 ulp of a "
                        "threshold are skipped, exactly-at-threshold events are generated only with dyadic values "
                        "where the comparison is exact",
                        "StopOnPlateau has no reset(); the reset clause is checked on ReduceToBason",
                        "counters steps/patience_count are compared up to and including the stopping step"],
    }
