"""clocksim -- C15: call / reset / systime / set_refpoint histories with clock-jump faults against an
integer-clock model and closed-form Jacobians.

Real code: System (forward hook, reset, systime), LTI, LTV, NLS (set_refpoint, A, B, C, D, c1, c2), bmv.
Stubs: the concrete systems (random LTI; LTV indexing stacked matrices by systime % T as in the class
documentation; NLS subclasses from a generated smooth family with closed-form Jacobians).
"""
import numpy as np
import torch
import pypose as pp

from ..core import rng
from ..core.outcome import Violation

NAME = "clocksim"
SIM_UNIT = "clock ticks"
BUDGET = {"quick": {"runs": 30000, "wall": 80}, "thorough": {"runs": 150000, "wall": 1200}}
ISOLATE = "chunk"       # every chunk of runs in a forked child of a pristine worker: what a run sees of the process is a
                        # deterministic function of the runs before it in the same chunk (see runner.run_history_iso)
CHUNK = 128
SHRINK_LISTS = ("ops",)
PROBES = {"C15": ["refpoint-partial", "state_dict-roundtrip", "deepcopy-continue", "lti:broadcast-constants", "custom-forward", "ltv-property-only", "refpoint-same-state-new-time", "jump-back", "jump-forward", "jump-tensor", "reset-nonzero", "refpoint-default",
                  "refpoint-explicit", "read-after-call-since-refpoint", "read-after-jump-since-refpoint",
                  "ltv-wrap", "batched-lti", "float-reftime", "call:keyword-arguments", "read:under-no_grad", "lti:systems-x-states-broadcast", "lti:set_refpoint", "call:same-tensor-objects-again", "nested-system"]}
TOL = 1e-10


def generate(seed, tier, prop="C15"):
    r = rng.stream(seed, "config")
    kind = r.choice(["LTI", "LTV", "NLS", "NLS"])
    cfg = {"kind": kind, "n": r.randint(1, 4), "m": r.randint(1, 3), "q": r.randint(1, 4), "h": r.randint(2, 4),
           "batch": r.choice([0, 0, 1, 2, 3]) if kind != "NLS" else 0, "Tn": r.randint(1, 6),
           "c1": r.random() < 0.7, "c2": r.random() < 0.7, "omega": round(r.uniform(0.1, 1.5), 3),
           "wrap": r.random() < 0.3, "cbroad": r.random() < 0.2, "variant": r.choice(["plain", "plain", "custom-forward", "prop-only"])}
    cfg["bcast2"] = kind == "LTI" and r.random() < 0.3
    ro = rng.stream(seed, "ops")
    n_ops = ro.randint(2, 40 if tier == "thorough" else 25)
    w = {"call": 5, "read": 3, "readtime": 1, "deepcopy": ro.choice([0, 0, 1]), "roundtrip": ro.choice([0, 0, 1]), "reset": ro.choice([0, 1, 2]), "settime": ro.choice([0, 1, 2]),
         "setref": ro.choice([1, 2]) if kind != "LTI" else ro.choice([0, 1]), "setref_default": ro.choice([0, 1, 2]) if kind == "NLS" else 0,
         "setref_same": ro.choice([0, 1, 1]) if kind == "NLS" else 0, "setref_partial": ro.choice([0, 1, 1]) if kind == "NLS" else 0}
    names = [k for k in w if w[k] > 0]
    ops = []
    if kind == "NLS" and ro.random() < 0.7:
        ops.append({"id": -1, "op": "setref", "t": ro.randint(0, 9), "tform": "i0"})
    for i in range(n_ops):
        op = ro.choices(names, [w[k] for k in names])[0]
        o = {"id": i, "op": op}
        if op in ("reset", "settime", "setref", "setref_same", "setref_partial"):
            o["t"] = ro.choice([0, 0, 1, 2, 3, 5, 7, 11, 30]) if ro.random() < 0.8 else ro.randint(0, 60)
            o["tform"] = ro.choice(["int", "i0", "i1"]) if op != "reset" else ro.choice(["int", "int", "i0"])
            if o["tform"] == "i1" and not (op in ("setref", "setref_same", "setref_partial") and kind == "NLS"):
                o["tform"] = "i0"       # a 1-d tensor is a time only for NLS.set_refpoint (atleast_1d)
            if op == "setref" and kind == "NLS" and ro.random() < 0.15:
                o["tform"] = "f0"
            if op == "reset" and ro.random() < 0.4:
                o["t"] = 0
        ops.append(o)
    return {"engine": NAME, "seed": seed, "config": cfg, "ops": ops}


def brief(plan):
    return {"config": plan["config"],
            "ops": [o["op"] + (":%s" % o["t"] if "t" in o else "") for o in plan["ops"]]}


def simplify(plan):
    c = plan["config"]
    cands = []
    for k, v in (("n", 1), ("m", 1), ("q", 1), ("h", 2), ("batch", 0), ("c1", False), ("c2", False), ("Tn", 2), ("variant", "plain"), ("cbroad", False)):
        if c.get(k) != v:
            cands.append({**plan, "config": dict(c, **{k: v})})
    for i, o in enumerate(plan["ops"]):
        if o.get("tform") not in (None, "int", "i0"):
            ops = list(plan["ops"]); ops[i] = dict(o, tform="i0"); cands.append({**plan, "ops": ops})
        if o.get("t", 0) > 3:
            ops = list(plan["ops"]); ops[i] = dict(o, t=o["t"] % 3 + 1); cands.append({**plan, "ops": ops})
    return cands


# ---------------------------------------------------------------------------------------------
# stubs: concrete systems

class StackedLTV(pp.module.LTV):
    """LTV as in the class documentation: stacked matrices indexed by systime % T."""
    def __init__(self, A, B, C, D, c1, c2, T):
        super().__init__(A, B, C, D, c1, c2)
        self.T = T

    def _at(self, M, vec=False):
        if M is None:
            return None
        k = self._t % self.T
        return M[..., k, :] if vec else M[..., k, :, :]

    A = property(lambda self: self._at(self._A))
    B = property(lambda self: self._at(self._B))
    C = property(lambda self: self._at(self._C))
    D = property(lambda self: self._at(self._D))
    c1 = property(lambda self: self._at(self._c1, True))
    c2 = property(lambda self: self._at(self._c2, True))


class PropLTV(pp.module.LTV):
    """LTV whose matrices AND constant terms exist only as properties generated from the time (the second pattern of
    the class documentation); nothing is handed to the constructor."""
    def __init__(self, mats, T):
        super().__init__()
        self.mats, self.T = mats, T

    def _at(self, name, vec=False):
        M = self.mats[name]
        if M is None:
            return None
        k = self._t % self.T
        return M[..., k, :] if vec else M[..., k, :, :]

    A = property(lambda self: self._at("A"))
    B = property(lambda self: self._at("B"))
    C = property(lambda self: self._at("C"))
    D = property(lambda self: self._at("D"))
    c1 = property(lambda self: self._at("c1", True))
    c2 = property(lambda self: self._at("c2", True))


def custom_forward(base):
    """A subclass that redefines forward() without calling super().forward(): the documented way to add noise or
    logging around a system.  Its time must still advance by one per call."""
    class Custom(base):
        def forward(self, state, input):
            self.state, self.input = torch.atleast_1d(state), torch.atleast_1d(input)
            if isinstance(self, pp.module.NLS):
                return (self.state_transition(self.state, self.input, self.systime),
                        self.observation(self.state, self.input, self.systime))
            return self.state_transition(self.state, self.input), self.observation(self.state, self.input)
    Custom.__name__ = "Custom" + base.__name__
    return Custom


class GenNLS(pp.module.NLS):
    def __init__(self, P):
        super().__init__()
        self.P = {k: torch.tensor(v, dtype=torch.float64) for k, v in P.items() if k != "omega"}
        self.omega = P["omega"]

    def state_transition(self, x, u, t=None):
        # written with x @ W^T so that it also accepts a stack of states (sigma points, particles)
        P = self.P
        tt = torch.as_tensor(t).to(torch.float64).reshape(-1)[0]
        z = x @ P["W2"].mT + u @ P["W3"].mT + P["b"] * torch.sin(self.omega * tt)
        return torch.tanh(z) @ P["W1"].mT + x @ P["W4"].mT + u @ P["W5"].mT + P["c"] * torch.cos(self.omega * tt)

    def observation(self, x, u, t=None):
        P = self.P
        tt = torch.as_tensor(t).to(torch.float64).reshape(-1)[0]
        z = x @ P["V2"].mT + u @ P["V3"].mT + P["e"] * 0.1 * tt
        return torch.tanh(z) @ P["V1"].mT + x @ P["V4"].mT + u @ P["V5"].mT + 0.5 * (x * x) @ P["V6"].mT


def nls_params(seed, n, m, q, h, omega):
    g = lambda name, shape, sc=1.0: rng.randn(seed, ("nls", name), shape, None, sc).numpy()
    return {"W1": g("W1", (n, h)), "W2": g("W2", (h, n), 0.7), "W3": g("W3", (h, m), 0.7), "b": g("b", (h,)),
            "W4": g("W4", (n, n), 0.5), "W5": g("W5", (n, m), 0.5), "c": g("c", (n,)),
            "V1": g("V1", (q, h)), "V2": g("V2", (h, n), 0.7), "V3": g("V3", (h, m), 0.7), "e": g("e", (h,)),
            "V4": g("V4", (q, n), 0.5), "V5": g("V5", (q, m), 0.5), "V6": g("V6", (q, n), 0.5), "omega": omega}


def nls_ref(P, x, u, t):
    """Closed forms in numpy: f, g and their partial Jacobians."""
    w = P["omega"]
    z = P["W2"] @ x + P["W3"] @ u + P["b"] * np.sin(w * t)
    s = 1 - np.tanh(z) ** 2
    f = P["W1"] @ np.tanh(z) + P["W4"] @ x + P["W5"] @ u + P["c"] * np.cos(w * t)
    A = P["W1"] @ np.diag(s) @ P["W2"] + P["W4"]
    B = P["W1"] @ np.diag(s) @ P["W3"] + P["W5"]
    zg = P["V2"] @ x + P["V3"] @ u + P["e"] * 0.1 * t
    sg = 1 - np.tanh(zg) ** 2
    g = P["V1"] @ np.tanh(zg) + P["V4"] @ x + P["V5"] @ u + 0.5 * P["V6"] @ (x * x)
    C = P["V1"] @ np.diag(sg) @ P["V2"] + P["V4"] + P["V6"] @ np.diag(x)
    D = P["V1"] @ np.diag(sg) @ P["V3"] + P["V5"]
    return f, g, A, B, C, D


def _t_arg(o):
    t, form = o["t"], o.get("tform", "int")
    if form == "int":
        return t
    if form == "i0":
        return torch.tensor(t, dtype=torch.int64)
    if form == "i1":
        return torch.tensor([t], dtype=torch.int64)
    return torch.tensor(t + 0.5, dtype=torch.float64)


def _close(a, b, what, step, key, tol=TOL):
    a = np.asarray(a, dtype=np.float64); b = np.asarray(b, dtype=np.float64)
    if a.shape != b.shape:
        raise Violation("C15.shape", "%s: shape %s, expected %s" % (what, a.shape, b.shape), step, key + ":shape")
    err = np.abs(a - b).max() if a.size else 0.0
    if not err <= tol * (1 + np.abs(b).max() if b.size else 1):
        raise Violation("C15." + key.split(":")[0], "%s differs from the reference model by %.3e" % (what, err), step, key)


def execute(plan, prop, out, tr):
    c, s = plan["config"], plan["seed"]
    kind, n, m, q = c["kind"], c["n"], c["m"], c["q"]
    dt = torch.float64
    bs = (c["batch"],) if c["batch"] else ()
    tr.ev("plan", c)
    P = None
    if kind == "NLS":
        P = nls_params(s, n, m, q, c["h"], c["omega"])
        sysm = (custom_forward(GenNLS) if c.get("variant") == "custom-forward" else GenNLS)(P)
        if c.get("variant") == "custom-forward":
            out.probe("custom-forward")
    else:
        Tn = c["Tn"] if kind == "LTV" else None
        st = (Tn,) if Tn else ()
        bm = bs
        if kind == "LTI" and bs and c.get("bcast2"):
            # S systems against K states: matrices (S,1,..) and states (K,..) broadcast to (S,K,..); S == K is the
            # coincidence in which a one-to-one pairing would still have a legal shape
            bm = bs + (1,)
            out.probe("lti:systems-x-states-broadcast")
        mats = {"A": rng.randn(s, ("A",), bm + st + (n, n), dt, 0.7), "B": rng.randn(s, ("B",), bm + st + (n, m), dt),
                "C": rng.randn(s, ("C",), bm + st + (q, n), dt), "D": rng.randn(s, ("D",), bm + st + (q, m), dt),
                "c1": rng.randn(s, ("c1",), bm + st + (n,), dt) if c["c1"] else None,
                "c2": rng.randn(s, ("c2",), bm + st + (q,), dt) if c["c2"] else None}
        var = c.get("variant", "plain")
        if kind == "LTI" and c.get("cbroad") and not bs:
            # constants with a broader batch shape than A x + B u: the sum broadcasts
            Bd = 3
            if mats["c1"] is not None:
                mats["c1"] = rng.randn(s, ("c1b",), (Bd, n), dt)
            if mats["c2"] is not None:
                mats["c2"] = rng.randn(s, ("c2b",), (Bd, q), dt)
            out.probe("lti:broadcast-constants")
        if kind == "LTI":
            cls = custom_forward(pp.module.LTI) if var == "custom-forward" else pp.module.LTI
            sysm = cls(*[mats[k] for k in ("A", "B", "C", "D", "c1", "c2")])
        elif var == "prop-only":
            sysm = PropLTV(mats, Tn); out.probe("ltv-property-only")
        else:
            cls = custom_forward(StackedLTV) if var == "custom-forward" else StackedLTV
            sysm = cls(*[mats[k] for k in ("A", "B", "C", "D", "c1", "c2")], Tn)
        if var == "custom-forward":
            out.probe("custom-forward")
        if bs:
            out.probe("batched-lti")
    npd = lambda t: t.detach().double().numpy()

    def lin_mats(clock):
        res = {}
        for k in ("A", "B", "C", "D", "c1", "c2"):
            M = mats[k]
            if M is None:
                res[k] = None
            elif kind == "LTV":
                idx = clock % c["Tn"]
                res[k] = npd(M[..., idx, :] if k in ("c1", "c2") else M[..., idx, :, :])
            else:
                res[k] = npd(M)
        return res

    # a second system registered as a sub-module of the first (a plant with an actuator model, say): it has its own clock,
    # which only its own calls, reset and assignment may move
    inner, inner_clock = None, 0
    if rng.H(s, "nested") % 4 == 0:
        inner = pp.module.LTI(torch.eye(2, dtype=dt) * 0.5, torch.ones(2, 1, dtype=dt), torch.eye(2, dtype=dt), torch.zeros(2, 1, dtype=dt))
        for _ in range(1 + rng.H(s, "nested-steps") % 3):
            inner(torch.zeros(2, dtype=dt), torch.ones(1, dtype=dt)); inner_clock += 1
        sysm.actuator = inner
        out.probe("nested-system")
    clock = 0
    retired = []            # systems that were deep-copied away, with the clock value they must keep
    handed = []             # (tensor handed to the system as a time, its value then, op id): callers' tensors stay theirs
    last_xu = None
    ref = None              # (x*, u*, t*) as values
    ref_t = None            # the tensors handed over as x*, u*
    calls_since_ref = jumps_since_ref = 0
    prev = "init"
    for o in plan["ops"]:
        i, op = o["id"], o["op"]
        if op == "call":
            x = rng.randn(s, ("x", i), bs + (n,), dt); u = rng.randn(s, ("u", i), bs + (m,), dt)
            if last_xu is not None and rng.H(s, "hold", i) % 4 == 0:
                x, u = last_xu_t            # a held input: the very same tensor objects as in the previous call
                out.probe("call:same-tensor-objects-again")
            xb, ub = x.clone(), u.clone()
            try:
                if rng.H(s, "kwcall", i) % 3 == 0:
                    xn, y = sysm(state=x, input=u); out.probe("call:keyword-arguments")
                else:
                    xn, y = sysm(x, u)
            except Exception as e:
                raise Violation("C15.raises", "system call raised %s: %s" % (type(e).__name__, str(e)[:200]), i, "raises:call")
            if kind == "NLS":
                f, g = nls_ref(P, npd(x), npd(u), float(clock))[:2]
            else:
                M = lin_mats(clock)
                mv = lambda A, v: np.einsum("...ij,...j->...i", A, v)
                f = mv(M["A"], npd(x)) + mv(M["B"], npd(u)) + (M["c1"] if M["c1"] is not None else 0)
                g = mv(M["C"], npd(x)) + mv(M["D"], npd(u)) + (M["c2"] if M["c2"] is not None else 0)
                if kind == "LTV" and clock >= c["Tn"]:
                    out.probe("ltv-wrap")
            _close(npd(xn), f, "next state of call at time %d" % clock, i, "dynamics:state")
            _close(npd(y), g, "observation of call at time %d" % clock, i, "dynamics:obs")
            if not (torch.equal(x, xb) and torch.equal(u, ub)):
                raise Violation("C15.mutation", "system call modified its arguments", i, "mutation")
            clock += 1
            last_xu = (npd(x), npd(u)); last_xu_t = (x, u)
            calls_since_ref += 1
            out.sim_time += 1
            tr.ev("call", i, xn, y)
        elif op == "roundtrip":
            # persistence round trip of the module: the clock is a registered buffer and must survive it unchanged
            sd = {k_: v_.clone() for k_, v_ in sysm.state_dict().items()}
            sysm.load_state_dict(sd)
            if i % 2:
                sysm.double()
            out.probe("state_dict-roundtrip")
        elif op == "deepcopy":
            # snapshot of the system (a look-ahead copy): the copy carries on, the original must stay where it was
            import copy as _copy
            orig_sys, orig_clock = sysm, clock
            sysm = _copy.deepcopy(sysm)
            retired.append((orig_sys, orig_clock))
            out.probe("deepcopy-continue")
        elif op == "reset":
            if o["t"] == 0 and o["id"] % 2 == 0:
                sysm.reset()
            else:
                ta = _t_arg(o)
                if torch.is_tensor(ta):
                    handed.append((ta, ta.clone(), i)); out.probe("jump-tensor")
                sysm.reset(ta)
            if o["t"]:
                out.probe("reset-nonzero")
            out.fault("clock-jump-" + ("back" if o["t"] < clock else "forward" if o["t"] > clock else "same"))
            out.probe("jump-back" if o["t"] < clock else "jump-forward")
            clock = o["t"]; jumps_since_ref += 1
        elif op == "settime":
            ta = _t_arg(o)
            if torch.is_tensor(ta):
                handed.append((ta, ta.clone(), i)); out.probe("jump-tensor")
            sysm.systime = ta
            out.fault("clock-jump-" + ("back" if o["t"] < clock else "forward" if o["t"] > clock else "same"))
            out.probe("jump-back" if o["t"] < clock else "jump-forward")
            clock = o["t"]; jumps_since_ref += 1
        elif op == "setref":
            if kind == "LTV":
                ta = _t_arg(o)
                if torch.is_tensor(ta):
                    handed.append((ta, ta.clone(), i))
                sysm.set_refpoint(t=ta)
                out.fault("clock-jump-" + ("back" if o["t"] < clock else "forward" if o["t"] > clock else "same"))
                clock = o["t"]
            elif kind == "LTI":
                # generic code calls set_refpoint on every system class: for a time-invariant system it sets nothing,
                # in particular not the time (only calls, reset and systime assignment do)
                ta = _t_arg(o)
                if torch.is_tensor(ta):
                    handed.append((ta, ta.clone(), i))
                sysm.set_refpoint(state=rng.randn(s, ("xs", i), bs + (n,), dt), input=rng.randn(s, ("us", i), bs + (m,), dt), t=ta)
                out.probe("lti:set_refpoint")
            elif kind == "NLS":
                xs = rng.randn(s, ("xs", i), (n,), dt); us = rng.randn(s, ("us", i), (m,), dt)
                ta = _t_arg(o)
                if not torch.is_tensor(ta):
                    ta = torch.tensor(ta, dtype=torch.int64)
                tval = float(ta.reshape(-1)[0])
                if o.get("tform") == "f0":
                    out.probe("float-reftime")
                handed.append((ta, ta.clone(), i))
                sysm.set_refpoint(state=xs, input=us, t=ta)
                ref = (npd(xs), npd(us), tval)
                ref_t = (xs, us)
                calls_since_ref = jumps_since_ref = 0
                out.probe("refpoint-explicit")
        elif op == "setref_partial":
            # only the state or only the input is given; the other one defaults to the most recent call's
            if kind == "NLS" and last_xu is not None:
                ta = _t_arg(o)
                if not torch.is_tensor(ta):
                    ta = torch.tensor(ta, dtype=torch.int64)
                handed.append((ta, ta.clone(), i))
                if i % 2:
                    xs = rng.randn(s, ("xsp", i), (n,), dt)
                    sysm.set_refpoint(state=xs, t=ta)
                    ref = (npd(xs), last_xu[0 + 1], float(ta.reshape(-1)[0])); ref_t = (xs, last_xu_t[1])
                else:
                    us = rng.randn(s, ("usp", i), (m,), dt)
                    sysm.set_refpoint(input=us, t=ta)
                    ref = (last_xu[0], npd(us), float(ta.reshape(-1)[0])); ref_t = (last_xu_t[0], us)
                calls_since_ref = jumps_since_ref = 0
                out.probe("refpoint-partial")
        elif op == "setref_same":
            # the same (x*, u*) tensors again, another reference time
            if kind == "NLS" and ref is not None and ref_t is not None:
                ta = _t_arg(o)
                if not torch.is_tensor(ta):
                    ta = torch.tensor(ta, dtype=torch.int64)
                handed.append((ta, ta.clone(), i))
                sysm.set_refpoint(state=ref_t[0], input=ref_t[1], t=ta)
                ref = (ref[0], ref[1], float(ta.reshape(-1)[0]))
                calls_since_ref = jumps_since_ref = 0
                out.probe("refpoint-same-state-new-time")
        elif op == "setref_default":
            if kind == "NLS" and last_xu is not None:
                sysm.set_refpoint()
                ref = (last_xu[0], last_xu[1], float(clock)); ref_t = last_xu_t
                calls_since_ref = jumps_since_ref = 0
                out.probe("refpoint-default")
        elif op == "read":
            if kind == "NLS":
                if ref is None:
                    continue
                f, g, A, B, C, D = nls_ref(P, *ref)
                c1 = f - A @ ref[0] - B @ ref[1]
                c2 = g - C @ ref[0] - D @ ref[1]
                if calls_since_ref:
                    out.probe("read-after-call-since-refpoint")
                if jumps_since_ref:
                    out.probe("read-after-jump-since-refpoint")
                want = {"A": A, "B": B, "C": C, "D": D, "c1": c1, "c2": c2}
                why = " (reference point set at t*=%s, %d calls and %d clock jumps ago)" % (ref[2], calls_since_ref, jumps_since_ref)
                keyx = ":stale" if (calls_since_ref or jumps_since_ref) else ":fresh"
            else:
                want = lin_mats(clock); why = " at time %d" % clock; keyx = ""
            for k in ("A", "B", "C", "D", "c1", "c2"):
                try:
                    if rng.H(s, "nograd", i) % 4 == 0:
                        with torch.no_grad():
                            got = getattr(sysm, k)
                        out.probe("read:under-no_grad")
                    else:
                        got = getattr(sysm, k)
                except Exception as e:
                    raise Violation("C15.raises", "reading %s raised %s: %s" % (k, type(e).__name__, str(e)[:200]), i,
                                    "raises:read")
                if want[k] is None:
                    if got is not None:
                        raise Violation("C15.linearisation", "%s should be None" % k, i, "linearisation:none")
                    continue
                _close(npd(got), want[k], k + why, i, "linearisation:" + kind + keyx)
            tr.ev("read", i, npd(getattr(sysm, "A")))
        # after every operation: tensors the caller handed over as times still hold the caller's values
        for tt, val, oid in handed:
            if not torch.equal(tt, val):
                raise Violation("C15.mutation", "after op %s (#%d): the tensor passed as a time at op #%d now holds %s, the "
                                "caller gave %s (the system clock aliases the caller's tensor)" % (op, i, oid, tt.tolist(), val.tolist()),
                                i, "mutation:time-arg")
        if inner is not None:
            ist = getattr(sysm, "actuator", inner).systime
            if int(ist) != inner_clock:
                raise Violation("C15.clock", "after op %s (#%d) on the outer system, the time of the system registered inside it "
                                "moved from %d to %d without any call, reset or assignment on it" % (op, i, inner_clock, int(ist)),
                                i, "clock:nested")
        for osys, oclk in retired:
            if int(osys.systime) != oclk:
                raise Violation("C15.clock", "after op %s (#%d) on a deep copy, the ORIGINAL system's time moved from %d to %d"
                                % (op, i, oclk, int(osys.systime)), i, "clock:deepcopy-original")
        # after every operation: the clock
        st = sysm.systime
        if not (torch.is_tensor(st) and st.numel() == 1 and int(st) == clock):
            raise Violation("C15.clock", "after op %s (#%d) systime=%s, reference clock=%d" % (op, i, st, clock), i,
                            "clock:" + op)
        tr.ev("clock", i, int(st))
        out.ops += 1
        out.sigs.add("%s|%s|%s|ref%s" % (kind, prev, op, ref is not None))
        prev = op
    out.nontrivial = any(o["op"] in ("reset", "settime", "setref", "setref_default", "setref_same", "setref_partial") for o in plan["ops"])


def describe(prop):
    return {
        "rule": "one run = one system (LTI random batched/unbatched; LTV stacked matrices indexed by systime % T; NLS "
                "from the family f=W1 tanh(W2x+W3u+b sin(wt))+W4x+W5u+c cos(wt), g likewise plus a quadratic term) and a "
                "seeded history of <= 40 operations {call, reset, reset(t), systime=t (int/0-d/1-d tensor), "
                "set_refpoint(x*,u*,t*), set_refpoint() defaults, read A..c2, read systime}; distinct = distinct "
                "(system kind, previous op, op, reference point set?) ; non-trivial = the history contains a clock "
                "jump or a set_refpoint",
        "fault_kinds": ["clock-jump-back", "clock-jump-forward", "clock-jump-same"],
        "real": ["pypose.module.System (forward hook, reset, systime setter)", "pypose.module.LTI", "pypose.module.LTV "
                 "(set_refpoint)", "pypose.module.NLS (forward, set_refpoint, A, B, C, D, c1, c2 via autograd)", "pypose.bmv"],
        "stub": ["the concrete systems and their data; the NLS family's closed-form Jacobians are the oracle"],
        "assumptions": ["float64, NLS unbatched (torch's jacobian of a batched map is not what the property speaks of)",
                        "the 'second order' clause is implied by exact Jacobians + exact offsets for C2 f, g and is not "
                        "tested numerically"],
    }
