"""optsim -- C08 (accept / reject / restore / loss bookkeeping / damping transitions) and C07 (every
linear system at the solver seam is the documented damped weighted solve) on one simulated optimizer.

Real code: LevenbergMarquardt, GaussNewton, RobustModel, modjac, Constant / Adaptive / TrustRegion,
FastTriggs / Triggs, kernels, PINV / LSTSQ / Cholesky (inside the proxy), LieTensor arithmetic.
Stubs: the fault decision in SolverProxy, the recording shell of StrategyProxy, the generated model.
"""
import io, contextlib, math, os
import numpy as np
import torch
import pypose as pp

from ..core import rng, refmath, boundary
from ..core.outcome import Violation
from . import optmodels as om

NAME = "optsim"
SIM_UNIT = "solver invocations (trials)"
BUDGET = {"C08": {"quick": {"runs": 3500, "wall": 85}, "thorough": {"runs": 60000, "wall": 1800}},
          "C07": {"quick": {"runs": 2000, "wall": 85}, "thorough": {"runs": 30000, "wall": 1800}}}
ISOLATE = "chunk"       # every chunk of runs in a forked child of a pristine worker: what a run sees of the process is a
                        # deterministic function of the runs before it in the same chunk (see runner.run_history_iso)
SHRINK_LISTS = ("faults", "ops")
PROBES = {
    "C08": ["call:accept-first", "call:reject-then-accept", "call:exhausted", "call:raise-first-trial",
            "call:raise-after-reject", "call:zero-step", "reject=0", "strategy:Constant", "strategy:Adaptive",
            "strategy:TrustRegion", "damping:clamped-min", "damping:clamped-max", "trust:down-shrunk",
            "trust:down-reset", "GN", "group-param", "float32", "scripted", "ctor-defaults", "zero-residual-start", "kernel-list-with-None", "trial-loss=+inf", "strategy-reused-by-new-optimizer", "input-form:dict", "input-form:list", "input-form:single"],
    "C07": ["lm:first-trial", "lm:trial>=2", "gn", "weights:RR", "weights:NRR", "weights:full", "weights:refreshed-in-place", "weights:per-call-alternating", "kernel", "triggs",
            "clamp-min-bites", "clamp-max-bites", "frozen-param", "group-param", "vectorize-off", "two-residuals",
            "unused-columns", "ctor-defaults", "kernel-list-with-None", "data-refreshed-between-calls", "rotation-vector>pi", "input-form:dict", "input-form:list", "input-form:single",
            "one-observation-exactly-explained", "warm-start", "zero-residual-start", "solve:CG"],
}
TS = float(os.environ.get("PPSIM_TOLSCALE", "1"))
EXC = {"RuntimeError": RuntimeError, "ValueError": ValueError, "AssertionError": AssertionError,
       "LinAlgError": torch.linalg.LinAlgError, "ZeroDivisionError": ZeroDivisionError}
KERNELS = {"Huber": lambda d: pp.optim.kernel.Huber(d), "PseudoHuber": lambda d: pp.optim.kernel.PseudoHuber(d),
           "Cauchy": lambda d: pp.optim.kernel.Cauchy(d), "SoftLOne": lambda d: pp.optim.kernel.SoftLOne(d),
           "Arctan": lambda d: pp.optim.kernel.Arctan(d), "Scale": lambda d: pp.optim.kernel.Scale(min(d, 1.0))}


# ---------------------------------------------------------------------------------------------
# generation

def generate(seed, tier, prop="C08"):
    r = rng.stream(seed, "config")
    spec = om.gen_spec(rng.stream(seed, "spec"), prop)
    scripted = spec["residuals"][0]["tpl"] == "scalar"
    opt = "LM" if (scripted or r.random() < 0.8) else "GN"
    sk = r.choice(["Constant", "Adaptive", "TrustRegion"])
    if sk == "Constant":
        st = {"kind": sk, "damping": rng.loguniform(r, 1e-9, 1e3)}
    elif sk == "Adaptive":
        st = {"kind": sk, "damping": rng.loguniform(r, 1e-9, 1e3), "high": r.choice([0.5, 0.75, 0.9]),
              "low": r.choice([1e-3, 0.1, 0.25, 0.95]), "up": r.choice([2.0, 3.0, 10.0]), "down": r.choice([0.5, 0.1, 0.9]),
              "min": r.choice([1e-6, 1e-3, 1e-9]), "max": r.choice([1e16, 1e2, 1.0])}
    else:
        st = {"kind": sk, "radius": rng.loguniform(r, 1e-3, 1e9), "high": r.choice([0.5, 0.75, 0.9]),
              "low": r.choice([1e-3, 0.1, 0.25, 0.95]), "up": r.choice([2.0, 3.0, 10.0]), "down": r.choice([0.5, 0.1, 0.9]),
              "factor": r.choice([0.5, 0.1, 0.9]), "min": r.choice([1e-6, 1e-3, 1e-9]), "max": r.choice([1e16, 1e2, 1e6])}
    nres = len(spec["residuals"])
    kern = None
    if not scripted and r.random() < (0.5 if prop == "C07" else 0.3):
        kern = [{"name": r.choice(sorted(KERNELS)), "delta": r.choice([0.1, 0.5, 1.0, 2.0])}
                for _ in range(nres if r.random() < 0.5 else 1)]
    if kern and len(kern) > 1 and r.random() < 0.4:
        kern[r.randrange(len(kern))] = None         # a list mixing a real kernel with None (documented)
    corr = r.choice(["auto", "auto", "FastTriggs", "Triggs"]) if kern else "none"
    if kern and any(k is None for k in kern):
        corr = "auto"
    if corr == "Triggs" and any(k is not None and k["name"] == "Scale" for k in kern):
        corr = "FastTriggs"     # Triggs cannot differentiate a kernel with constant slope (corrector defect, C09 territory)
    cfg = {"opt": opt, "strategy": st, "reject": r.choice([0, 1, 2, 3, 5, 16]),
           "min": r.choice([1e-6, 1e-6, 1e-3, 0.5, 5.0]) if prop == "C07" else 1e-6,
           "max": r.choice([1e32, 1e32, 2.0, 50.0]) if prop == "C07" else 1e32,
           "solver": r.choice(["Cholesky", "Cholesky-upper", "PINV", "LSTSQ", "CG"]) if opt == "LM" else r.choice(["PINV", "LSTSQ"]),
           "kernel": kern, "corrector": corr,
           "weights": r.choice(["none", "RR", "NRR", "full"]) if (prop == "C07" and not scripted) else
                      r.choice(["none", "none", "RR"]) if not scripted else "none",
           "weight_at": r.choice(["ctor", "step", "alternate"]), "reweight": r.random() < 0.3, "vectorize": r.random() < 0.8,
           "input_form": r.choice(["tuple", "tuple", "list", "dict", "single"]), "ctor_defaults": r.random() < 0.2, "rebuild": r.random() < 0.15,
           "refresh_data": prop == "C07" and r.random() < 0.25,
           "dtype": "f64" if (prop == "C07" or r.random() < 0.6) else "f32",
           "target": (not scripted) and r.random() < 0.3, "spec": spec}
    if cfg["max"] < cfg["min"]:
        cfg["max"] = 1e32
    # where the optimisation starts relative to the data: anywhere / exactly at a zero residual / with one observation
    # already explained exactly / within 1e-6 .. 1e-8 of the solution (a warm start)
    cfg["start"] = r.choice(["random", "random", "random", "zero", "one-zero", "near"]) if not scripted else "random"
    if cfg["start"] != "random":
        cfg["target"] = True
    ro = rng.stream(seed, "ops")
    n_calls = ro.randint(1, 6 if prop == "C07" else (30 if tier == "thorough" else 14))
    ops = [{"id": i, "op": "step"} for i in range(n_calls)]
    # ---- fault plan at the solver seam
    rf = rng.stream(seed, "faults")
    faults = []
    mode = rf.choice(["none", "none", "sparse", "sparse", "dense", "burst", "whole-call"]) if opt == "LM" else \
        rf.choice(["none", "sparse"])
    kinds = ["raise", "negate", "overshoot", "zero", "noise", "huge"] if opt == "LM" else ["overshoot", "negate", "noise"]
    enabled = [k for k in kinds if rf.random() < 0.6] or [rf.choice(kinds)]

    def mk(kind):
        f = {"kind": kind}
        if kind == "raise":
            f["exc"] = rf.choice(sorted(EXC))
        elif kind == "overshoot":
            f["c"] = round(rf.uniform(3, 30), 3)
        elif kind == "negate":
            f["c"] = round(rf.uniform(0.5, 4), 3)
        elif kind == "noise":
            f["c"] = round(rf.uniform(0.1, 3), 3)
        elif kind == "huge":
            f["c"] = rf.choice([1e40, 1e80, 1e150])
        return f
    horizon = n_calls * 3
    if mode == "sparse":
        for j in sorted(rf.sample(range(horizon), min(horizon, rf.randint(1, 4)))):
            faults.append(dict(mk(rf.choice(enabled)), at=j))
    elif mode == "dense":
        for j in range(horizon):
            if rf.random() < 0.4:
                faults.append(dict(mk(rf.choice(enabled)), at=j))
    elif mode == "burst":
        j0 = rf.randrange(horizon)
        for j in range(j0, j0 + rf.randint(2, 6)):
            faults.append(dict(mk(rf.choice([k for k in enabled if k != "raise"] or ["negate"])), at=j))
        if rf.random() < 0.5:
            faults.append(dict(mk("raise"), at=j0 + rf.randint(1, 6)))
    elif mode == "whole-call":
        faults.append(dict(mk(rf.choice([k for k in enabled if k != "raise"] or ["negate"])), call=rf.randrange(n_calls)))
    if scripted:
        # prescribe exactly which trials increase the loss: k bad trials, then a good one
        faults = []
        j = 0
        for cidx in range(n_calls):
            k = rf.choice([0, 0, 1, 2, cfg["reject"], cfg["reject"] + 1])
            for t in range(min(k, cfg["reject"] + 1)):
                faults.append({"kind": "jump", "grow": round(rf.uniform(1.05, 3), 3), "at_call": cidx, "trial": t})
            if k <= cfg["reject"]:
                faults.append({"kind": "jump", "grow": rf.choice([0.0, 0.5, 0.9, 1.0, -0.5]), "at_call": cidx, "trial": k})
            if rf.random() < 0.15:
                faults.append({"kind": "raise", "exc": "RuntimeError", "at_call": cidx, "trial": rf.randint(0, cfg["reject"])})
    return {"engine": NAME, "seed": seed, "prop": prop, "config": cfg, "ops": ops, "faults": faults}


def brief(plan):
    c = plan["config"]
    return {"opt": c["opt"], "strategy": c["strategy"], "reject": c["reject"], "solver": c["solver"],
            "kernel": c["kernel"], "corrector": c["corrector"], "weights": c["weights"], "dtype": c["dtype"],
            "min": c["min"], "max": c["max"], "spec": c["spec"], "calls": len(plan["ops"]), "faults": plan["faults"][:12]}


def simplify(plan):
    c = plan["config"]
    cands = []
    for k, v in (("kernel", None), ("weights", "none"), ("reweight", False), ("target", False), ("dtype", "f64"), ("vectorize", True),
                 ("solver", "PINV"), ("reject", 1), ("reject", 0), ("min", 1e-6), ("max", 1e32)):
        if c.get(k) != v:
            cc = dict(c, **{k: v})
            if k == "kernel":
                cc["corrector"] = "none"
            cands.append({**plan, "config": cc})
    if c["strategy"]["kind"] != "Constant":
        cands.append({**plan, "config": dict(c, strategy={"kind": "Constant", "damping": 1e-6})})
    sp = c["spec"]
    if len(sp["residuals"]) > 1:
        for keep in range(len(sp["residuals"])):
            rs = sp["residuals"][keep]
            used = sorted({rs[k] for k in ("p", "pa", "pg", "pe") if k in rs})
            remap = {old: new for new, old in enumerate(used)}
            nr = dict(rs)
            for k in ("p", "pa", "pg", "pe"):
                if k in nr:
                    nr[k] = remap[nr[k]]
            nsp = {"params": [sp["params"][i] for i in used], "residuals": [nr]}
            kern = c["kernel"][:1] if c["kernel"] else None
            cands.append({**plan, "config": dict(c, spec=nsp, kernel=kern)})
    for i, ps in enumerate(sp["params"]):
        if ps.get("n", 0) > 1 and not any(r["tpl"] == "between" for r in sp["residuals"]):
            npar = [dict(q) for q in sp["params"]]; npar[i]["n"] = 1
            cands.append({**plan, "config": dict(c, spec={"params": npar, "residuals": sp["residuals"]})})
        if ps.get("frozen"):
            npar = [dict(q) for q in sp["params"]]; npar[i].pop("frozen")
            cands.append({**plan, "config": dict(c, spec={"params": npar, "residuals": sp["residuals"]})})
    for rs_i, rs in enumerate(sp["residuals"]):
        if rs.get("cubic"):
            nres = [dict(q) for q in sp["residuals"]]; nres[rs_i].pop("cubic")
            cands.append({**plan, "config": dict(c, spec={"params": sp["params"], "residuals": nres})})
    return cands


# ---------------------------------------------------------------------------------------------
# proxies (the simulator's fake peers)

class Raised(Exception):
    pass


class SolverProxy(torch.nn.Module):
    def __init__(self, inner, model, faults, out, seed, scripted):
        super().__init__()
        self.inner, self.model, self.out, self.seed, self.scripted = inner, model, out, seed, scripted
        self.by_at = {f["at"]: f for f in faults if "at" in f}
        self.by_call = {f["call"]: f for f in faults if "call" in f}
        self.by_trial = {(f["at_call"], f["trial"]): f for f in faults if "at_call" in f}
        self.n = 0              # global solve counter of the run
        self.call = -1
        self.trial = 0
        self.rec = []           # records of the current call

    def begin_call(self, idx):
        self.call, self.trial, self.rec = idx, 0, []

    def forward(self, A, b):
        j, t = self.n, self.trial
        self.n += 1; self.trial += 1
        f = self.by_trial.get((self.call, t)) or self.by_at.get(j) or self.by_call.get(self.call)
        rec = {"A": A.detach().clone(), "b": b.detach().clone(), "snap": om.snapshot(self.model), "fault": f,
               "D": None, "honest": None}
        self.rec.append(rec)
        kind = f["kind"] if f else "honest"
        if kind == "raise":
            self.out.fault("solver-raise")
            rec["raised"] = True
            raise EXC[f["exc"]]("injected solver failure #%d" % j)
        if kind == "jump":
            # scripted scalar model: land on theta * grow  (loss = theta^2 * grow^2)
            theta = self.model.plist()[0].detach()
            D = (theta * f["grow"] - theta).reshape(-1, 1).to(b.dtype)
            self.out.fault("solver-scripted")
            rec["D"] = D.clone()
            return D
        try:
            D = self.inner(A, b)
        except Exception:
            rec["raised"] = True            # a genuine failure of the real solver is a solver that raises, too
            self.out.probe("solver-raise-natural")
            raise
        rec["honest"] = D.detach().clone()
        if kind == "negate":
            D = -f["c"] * D; self.out.fault("solver-negate")
        elif kind == "overshoot":
            D = f["c"] * D; self.out.fault("solver-overshoot")
        elif kind == "zero":
            D = torch.zeros_like(D); self.out.fault("solver-zero")
        elif kind == "huge":
            D = f["c"] * D; self.out.fault("solver-huge")        # a step whose trial loss overflows to +inf
        elif kind == "noise":
            nz = rng.randn(self.seed, ("noise", j), tuple(D.shape), D.dtype)
            D = D + f["c"] * nz * (D.abs().max() + 1e-3); self.out.fault("solver-noise")
        rec["D"] = D.detach().clone()
        return D


class StrategyProxy(object):
    """Delegates to the real strategy; records what it was given and what it did to pg."""
    def __init__(self, inner, model):
        self.inner, self.model, self.defaults, self.rec = inner, model, inner.defaults, []

    def __getattr__(self, k):
        return getattr(self.inner, k)

    def update(self, pg, last, loss, J, D, R, *a, **kw):
        before = {k: pg.get(k) for k in ("damping", "radius", "down")}
        rec = {"before": before, "last": last, "loss": loss, "J": J.detach().clone(), "D": D.detach().clone(),
               "R": R.detach().clone(), "trial": om.snapshot(self.model)}
        self.inner.update(pg, last, loss, J, D, R, *a, **kw)
        rec["after"] = {k: pg.get(k) for k in ("damping", "radius", "down")}
        self.rec.append(rec)


# ---------------------------------------------------------------------------------------------
# helpers

def _weights(seed, mode, outs, dtype):
    if mode == "none":
        return None
    ws = []
    for j, o in enumerate(outs):
        d = o.shape[-1]; lead = tuple(o.shape[:-1])
        if mode == "RR" or not lead:
            shp = ()
        elif mode == "NRR":
            shp = lead[-1:]
        else:
            shp = lead
        M = rng.randn(seed, ("w", j), shp + (d, d), torch.float64)
        W = M @ M.mT + 0.5 * torch.eye(d, dtype=torch.float64)
        ws.append(W.to(dtype))
    return ws[0] if len(ws) == 1 else ws


def _full_weight(w, outs):
    """Reference expansion: block diagonal over all batch items of the broadcast weight (numpy)."""
    if w is None:
        return None
    ws = w if isinstance(w, (list, tuple)) else [w]
    blocks = []
    for wi, o in zip(ws, outs):
        d = o.shape[-1]; lead = tuple(o.shape[:-1])
        wb = np.broadcast_to(wi.detach().double().numpy(), lead + (d, d)).reshape(-1, d, d)
        blocks += list(wb)
    n = sum(b.shape[0] for b in blocks)
    W = np.zeros((n, n)); k = 0
    for b in blocks:
        W[k:k + b.shape[0], k:k + b.shape[0]] = b; k += b.shape[0]
    return W


def _close_params(sa, sb, kinds, tol_fn, what, step, oracle, key):
    for i, (a, b, ps) in enumerate(zip(sa, sb, kinds)):
        ka, xa = om.as_ref(a, ps); kb, xb = om.as_ref(b, ps)
        err = np.abs(xa - xb).max() if xa.size else 0.0
        tol = tol_fn(i, xa, xb)
        if not err <= tol:
            raise Violation(oracle, "%s: parameter %d (%s) differs by %.3e (allowed %.3e)" %
                            (what, i, ps["kind"] + ":" + str(ps.get("fam", "")), err, tol), step, key)


def _retraction_slack(kinds, D, snap, eps):
    """Round-off of the SE3 / Sim3 retraction itself.  pypose evaluates the translation coupling W(phi, sigma) of
    sim3 Exp by closed forms with cancellation: (exp(sigma) - 1) / sigma loses eps/|sigma| relative accuracy for
    small |sigma| > eps, and the mixed coefficients lose eps * max(theta, |sigma|) / (theta^2 + sigma^2) when both
    are small (the thin band reported under C01, which is not a simulation target; measured here: theta=0.06,
    sigma=7.6e-7, |tau|=0.11 gives a 1e-11 error in Exp and in Exp(-d) Exp(d)).  The property allows 'round-off
    of the retraction'; this is that round-off, per item |tau| * min(1, amplification)."""
    res = {}
    if D is None:
        return res
    Dv = D.detach().double().numpy().reshape(-1)
    k = 0
    for i, (ps, p) in enumerate(zip(kinds, snap)):
        if ps.get("frozen"):
            continue
        n = p.numel()
        if ps["kind"] == "grp" and ps["fam"] in ("Sim3", "SE3"):
            sd = 8 if ps["fam"] == "Sim3" else 7
            d = Dv[k:k + n].reshape(-1, sd)
            tau = np.abs(d[:, 0:3]).max(axis=1)
            th = np.linalg.norm(d[:, 3:6], axis=1)
            sg = np.abs(d[:, 6]) if ps["fam"] == "Sim3" else np.zeros_like(th)
            # translation coupling of se3/sim3 Exp: (1 - cos theta)/theta^2 is evaluated by its closed form for every
            # theta > eps and loses eps/theta^2 relative accuracy there; it multiplies theta*|tau| (measured: theta=1.3e-7,
            # |tau|=0.08 gives 2.7e-12 in Exp(-d) Exp(d) X)
            amp = np.where(th > eps, eps / np.maximum(th, 1e-300), 0.0)
            amp = amp + np.where(sg > eps, eps / np.maximum(sg, 1e-300), 0.0)
            both = (sg > eps) & (th > eps)
            amp = amp + np.where(both, eps * np.maximum(th, sg) / (th * th + sg * sg + 1e-300), 0.0)
            res[i] = float((20 * tau * np.minimum(1.0, amp)).max())
            # a step that shrinks the scale by exp(-|sigma|) and is then undone magnifies the round-off of the
            # intermediate translation by exp(|sigma|)
            res[("mult", i)] = float(np.exp(np.minimum(sg.max(), 60.0)))
        k += n
    return res


def _eps(dtype):
    return 2.3e-16 if dtype == torch.float64 else 1.2e-7


def _teq(a, b):
    """Bitwise-equal values, NaN counting as equal to NaN (parameters left behind by an overflowing trial)."""
    if a.shape != b.shape:
        return False
    a, b = a.detach(), b.detach()
    a = a.tensor() if hasattr(a, "ltype") else a
    b = b.tensor() if hasattr(b, "ltype") else b
    return bool(((a == b) | (torch.isnan(a) & torch.isnan(b))).all())


# ---------------------------------------------------------------------------------------------

def execute(plan, prop, out, tr):
    c, s = plan["config"], plan["seed"]
    dtype = torch.float64 if c["dtype"] == "f64" else torch.float32
    eps = _eps(dtype)
    spec = c["spec"]
    scripted = spec["residuals"][0]["tpl"] == "scalar"
    model = om.GenModel(spec, s, dtype)
    kinds = model.kinds
    data = om.make_data(spec, s, dtype)
    with torch.no_grad():
        o0 = model(*data)
    outs0 = list(o0) if isinstance(o0, tuple) else [o0]
    targets = None
    if c["target"]:
        targets = [rng.randn(s, ("tgt", j), tuple(o.shape), dtype, 0.3) for j, o in enumerate(outs0)]
        start = c.get("start", "random")
        if start == "zero" or (start == "random" and rng.H(s, "zero-start") % 6 == 0):
            targets = [o.detach().clone() for o in outs0]       # the model starts exactly at a zero residual
            out.probe("zero-residual-start")
        elif start == "one-zero":
            for t_, o_ in zip(targets, outs0):
                if o_.ndim >= 2:
                    t_.reshape(-1, t_.shape[-1])[0] = o_.detach().reshape(-1, o_.shape[-1])[0]
                else:
                    t_.copy_(o_.detach())
            out.probe("one-observation-exactly-explained")
        elif start == "near":
            tiny = [1e-6, 1e-8][rng.H(s, "near") % 2]
            targets = [o.detach().clone() + tiny * t_ for o, t_ in zip(outs0, targets)]
            out.probe("warm-start")
    target_arg = None if targets is None else (targets if len(targets) > 1 else targets[0])
    weight = _weights(s, c["weights"], outs0, dtype)
    kern = None
    if c["kernel"]:
        ks = [KERNELS[k["name"]](k["delta"]) if k is not None else None for k in c["kernel"]]
        if any(k is None for k in ks):
            out.probe("kernel-list-with-None")
        kern = ks if len(ks) > 1 else ks[0]
    corr = None
    if c["corrector"] in ("FastTriggs", "Triggs") and c["kernel"]:
        cls = pp.optim.corrector.FastTriggs if c["corrector"] == "FastTriggs" else pp.optim.corrector.Triggs
        cs = [cls(k) if k is not None else None for k in (kern if isinstance(kern, list) else [kern])]
        corr = cs if len(cs) > 1 else cs[0]
    inner = {"Cholesky": pp.optim.solver.Cholesky, "Cholesky-upper": lambda: pp.optim.solver.Cholesky(upper=True),
             "PINV": pp.optim.solver.PINV, "LSTSQ": pp.optim.solver.LSTSQ, "CG": pp.optim.solver.CG}[c["solver"]]()
    solver = SolverProxy(inner, model, plan["faults"], out, s, scripted)
    st = c["strategy"]
    strat = None
    ctor_w = weight if c["weight_at"] in ("ctor", "alternate") else None
    step_w = weight if c["weight_at"] == "step" else None
    # "alternate": a constructor weight W0, and on even calls a different per-call weight W1 that must apply to that
    # call only
    alt_w = None
    if c["weight_at"] == "alternate" and weight is not None:
        alt_w = [w_ * 3.0 + 0.5 * torch.eye(w_.shape[-1], dtype=w_.dtype) for w_ in (weight if isinstance(weight, (list, tuple)) else [weight])]
        alt_w = alt_w if isinstance(weight, (list, tuple)) else alt_w[0]
        out.probe("weights:per-call-alternating")
    if c["opt"] == "LM":
        if st["kind"] == "Constant":
            real = pp.optim.strategy.Constant(damping=st["damping"])
        elif st["kind"] == "Adaptive":
            real = pp.optim.strategy.Adaptive(**{k: st[k] for k in ("damping", "high", "low", "up", "down", "min", "max")})
        else:
            real = pp.optim.strategy.TrustRegion(**{k: st[k] for k in ("radius", "high", "low", "up", "down", "factor", "min", "max")})
        if c.get("ctor_defaults"):
            # default construction: LM builds its own Cholesky solver and TrustRegion strategy; the proxies are
            # slipped around those objects afterwards (solver / strategy are plain attributes of the optimizer)
            opt = pp.optim.LM(model, kernel=kern, corrector=corr, weight=ctor_w, reject=c["reject"], vectorize=c["vectorize"])
            real = opt.strategy
            solver.inner = opt.solver
            strat = StrategyProxy(real, model)
            opt.solver, opt.strategy = solver, strat
            # the documented defaults of LM's default strategy: TrustRegion(radius=1e6, high=.5, low=1e-3, up=2, down=.5,
            # factor=.5, min=1e-6, max=1e16); taken from the documentation, not read back from the object
            st = {"kind": "TrustRegion", "down": 0.5, "min": 1e-6, "max": 1e16}
            c = dict(c, min=1e-6, max=1e32, strategy=st)
            out.probe("ctor-defaults")
        else:
            strat = StrategyProxy(real, model)
            opt = pp.optim.LM(model, solver=solver, strategy=strat, kernel=kern, corrector=corr, weight=ctor_w,
                              reject=c["reject"], min=c["min"], max=c["max"], vectorize=c["vectorize"])
        out.probe("strategy:" + st["kind"])
    else:
        if c.get("ctor_defaults"):
            opt = pp.optim.GN(model, kernel=kern, corrector=corr, weight=ctor_w, vectorize=c["vectorize"])
            solver.inner = opt.solver; opt.solver = solver
            out.probe("ctor-defaults")
        else:
            opt = pp.optim.GN(model, solver=solver, kernel=kern, corrector=corr, weight=ctor_w, vectorize=c["vectorize"])
        out.probe("GN" if prop == "C08" else "gn")
    if any(ps["kind"] == "grp" for ps in kinds):
        out.probe("group-param")
    if any(ps.get("big") for ps in kinds):
        out.probe("rotation-vector>pi")
    if dtype == torch.float32:
        out.probe("float32")
    if scripted:
        out.probe("scripted")
    if c["reject"] == 0 and c["opt"] == "LM":
        out.probe("reject=0")
    klist = (kern if isinstance(kern, list) else [kern]) if kern is not None else [None]
    tr.ev("plan", {k: v for k, v in c.items() if k != "spec"}, spec)

    def hloss(snap=None):
        """Robust loss computed by the harness: sum_i kernel_i(|r_i|^2)."""
        cur = None
        if snap is not None:
            cur = om.snapshot(model); om.restore(model, snap)
        with torch.no_grad():
            o = model(*data)
            outs = list(o) if isinstance(o, tuple) else [o]
            tot = 0.0
            for j, r_ in enumerate(outs):
                if targets is not None:
                    r_ = r_ - targets[j]
                x = r_.square().sum(-1)
                if bool(torch.isnan(x).any()):
                    tot = float("nan"); break       # the kernels assert on NaN input: a NaN loss is reported as NaN
                k = klist[j] if len(klist) > 1 else klist[0]
                tot = tot + (k(x).sum() if k is not None else x.sum())
        if cur is not None:
            om.restore(model, cur)
        return float(tot)

    # the same data in the packaging variants RobustModel.model_forward documents: tuple / list / dict / single tensor
    form = c.get("input_form", "tuple")
    if form == "list":
        step_input = list(data)
    elif form == "dict" and len(data) >= 1:
        step_input = {"d%d" % k_: t_ for k_, t_ in enumerate(data)}
    elif form == "single" and len(data) == 1:
        step_input = data[0]
    else:
        step_input = data
    if step_input is not data:
        out.probe("input-form:" + form)
    tight = 1e2 * eps * TS
    prev_sig = "start"
    prev_bitwise, prev_ret = True, None
    rebuilt = False
    for o in plan["ops"]:
        ci = o["id"]
        if (c.get("rebuild") and not rebuilt and c["opt"] == "LM" and not c.get("ctor_defaults") and strat is not None
                and ci >= max(1, len(plan["ops"]) // 2)):
            # a fresh optimizer for the same model, built with the SAME strategy object the first one used
            opt = pp.optim.LM(model, solver=solver, strategy=strat, kernel=kern, corrector=corr, weight=ctor_w,
                              reject=c["reject"], min=c["min"], max=c["max"], vectorize=c["vectorize"])
            rebuilt = True; prev_bitwise, prev_ret = True, None
            out.probe("strategy-reused-by-new-optimizer")
        if weight is not None and c.get("reweight") and ci > 0:
            # the caller refreshes the weight buffer in place between steps (same storage, new values)
            for wt in (weight if isinstance(weight, (list, tuple)) else [weight]):
                wt.mul_(1.0 + 0.5 * ((rng.H(s, "rew", ci) % 7) - 2))
                boundary.refresh(wt)
            out.probe("weights:refreshed-in-place")
        if c.get("refresh_data") and ci > 0 and not scripted:
            # another batch of data for this call (same shapes): every call is the documented solve for ITS data
            data = om.make_data(spec, rng.H(s, "data", ci), dtype)
            if form == "list":
                step_input = list(data)
            elif form == "dict" and len(data) >= 1:
                step_input = {"d%d" % k_: t_ for k_, t_ in enumerate(data)}
            elif form == "single" and len(data) == 1:
                step_input = data[0]
            else:
                step_input = data
            out.probe("data-refreshed-between-calls")
        call_w = weight
        if alt_w is not None:
            step_w = alt_w if ci % 2 == 0 else None
            call_w = alt_w if ci % 2 == 0 else weight
        p_s = om.snapshot(model)
        L_s = hloss()
        if not math.isfinite(L_s):
            out.declined("loss-nonfinite"); break
        cached = float(opt.loss) if hasattr(opt, "loss") else None
        pg = opt.param_groups[0]
        damp0 = pg.get("damping")
        solver.begin_call(ci)
        if strat is not None:
            strat.rec = []
        sink = io.StringIO()
        try:
            with contextlib.redirect_stdout(sink):
                ret = opt.step(step_input, target=target_arg, weight=step_w)
        except Exception as e:
            with torch.no_grad():
                try:
                    finite = all(bool(torch.isfinite(r_).all()) for r_ in _residuals(model, data, targets))
                except Exception:
                    finite = False
            big = max([float(p_.detach().abs().max()) for p_ in model.plist() if p_.numel()] + [0.0])
            if solver.rec and not (bool(torch.isfinite(solver.rec[-1]["A"]).all()) and bool(torch.isfinite(solver.rec[-1]["b"]).all())):
                # the linear system handed to the solver already held inf / NaN.  From runaway parameters that is a
                # diverged run; from moderate parameters whose documented system (finite-difference Jacobian, closed-form
                # corrector) is finite, the step was not the documented solve
                if prop == "C07" and finite and math.isfinite(big) and big <= 1e6 and \
                        _ref_system_moderate(c, model, kinds, data, targets, solver.rec[-1]["snap"]):
                    raise Violation("C07.nonfinite-system", "%s call %d trial %d: the linear system handed to the solver holds "
                                    "inf / NaN although parameters, residuals and the documented (corrected) Jacobian are "
                                    "finite and moderate; the step then raised %s" %
                                    (c["opt"], ci, len(solver.rec) - 1, type(e).__name__), ci, "nonfinite-system")
                finite = False
            # Jinvp is differentiable "away from the zero rotation" only (the statement's operator set says so): a
            # parameter that an overflowing trial and its roll-back left at exactly zero rotation is outside that set
            if any(rs.get("op") == "jinvp" for rs in spec["residuals"]) and "Nan" in str(e):
                rot0 = False
                for rs in spec["residuals"]:
                    if rs.get("op") == "jinvp":
                        ps_ = kinds[rs["p"]]; pt_ = model.plist()[rs["p"]].detach()
                        pt_ = pt_.tensor() if hasattr(pt_, "ltype") else pt_
                        if ps_["kind"] == "alg":
                            sl = {"SO3": slice(0, 3), "SE3": slice(3, 6), "RxSO3": slice(0, 3), "Sim3": slice(3, 6)}[ps_["fam"]]
                            rot0 = rot0 or bool((pt_[..., sl].norm(dim=-1) < 1e-6).any())
                        else:
                            sl = {"SO3": slice(0, 3), "SE3": slice(3, 6), "RxSO3": slice(0, 3), "Sim3": slice(3, 6)}[ps_["fam"]]
                            rot0 = rot0 or bool((pt_[..., sl].norm(dim=-1) < 1e-6).any())    # vector part of the quaternion
                if rot0:
                    out.declined("Jinvp at the zero rotation (outside the operator set's domain)"); break
            if not finite or not math.isfinite(big) or big > 1e6:
                # accept-everything configurations (reject=0, tiny damping) can run away to 1e12 rad rotations, where
                # float32 Jacobians overflow to NaN and modjac's own assertion fires: a diverged run has no verdict
                out.declined("diverged (non-finite residuals or parameters beyond 1e6)"); break
            if c["opt"] == "GN":
                raise Violation(prop + ".raises", "GN.step raised %s: %s" % (type(e).__name__, str(e)[:300]), ci,
                                "gn:raises:frozen" if any(ps.get("frozen") for ps in kinds) else "gn:raises")
            key = "lm:raises:frozen" if any(ps.get("frozen") for ps in kinds) else "lm:raises"
            raise Violation(prop + ".raises", "LM.step (call %d) let an exception escape: %s: %s" %
                            (ci, type(e).__name__, str(e)[:300]), ci, key)
        p_e = om.snapshot(model)
        L_e = hloss()
        ret_f = float(ret)
        srec = solver.rec
        # nothing may have moved the parameters before the first linear system of the call is handed to the solver
        # (residual evaluation, corrector, weighting and Jacobian assembly only read them)
        if srec and not all(_teq(a_, b_) for a_, b_ in zip(srec[0]["snap"], p_s)):
            raise Violation(prop + ".pre-solve", "%s call %d: the parameters seen at the first solve of the call differ from "
                            "those the call was given (something between residual evaluation and the linear solve wrote "
                            "into parameter storage)" % (c["opt"], ci), ci, "pre-solve")
        trec = strat.rec if strat is not None else []
        n_solves = len(srec)
        out.sim_time += n_solves; out.ops += 1
        tr.ev("call", ci, ret_f, n_solves, [t.clone() for t in p_e], pg.get("damping"))
        if math.isnan(L_e) or math.isnan(ret_f) or L_e == -math.inf or ret_f == -math.inf:
            out.declined("loss-nonfinite"); break
        inf_end = (L_e == math.inf or ret_f == math.inf)      # +inf is simply 'worse than anything': still judged
        if inf_end and prop != "C08":
            out.declined("loss-nonfinite"); break
        scaleL = 1 + abs(L_s) + (abs(L_e) if math.isfinite(L_e) else 0.0)
        # =============================== C08 ===============================
        if prop == "C08":
            # after a call that ended in a solver failure following rejections, the parameters equal those of the
            # cached loss only up to restore round-off (checked by C08.restore), so the cache is compared tightly
            # only when the previous call left its last trial in place
            if cached is not None and prev_bitwise and abs(cached - L_s) > tight * scaleL:
                raise Violation("C08.cache", "call %d: cached optimizer.loss %.12g is not the loss %.12g of the "
                                "parameters at the start of the call" % (ci, cached, L_s), ci, "cache")
            if cached is not None and not prev_bitwise and prev_ret is not None and cached != prev_ret:
                raise Violation("C08.cache", "call %d: cached optimizer.loss %.12g changed since the previous call "
                                "returned %.12g" % (ci, cached, prev_ret), ci, "cache:changed")
            if cached is not None and c["opt"] == "LM":
                L_s = cached        # 'the loss at the parameters it was given', as the optimizer knows it
                scaleL = 1 + abs(L_s) + abs(L_e)
            if float(opt.loss) != ret_f:
                raise Violation("C08.ret", "call %d: step returned %.12g but optimizer.loss is %.12g" %
                                (ci, ret_f, float(opt.loss)), ci, "ret-vs-loss")
            if c["opt"] == "GN":
                if ret_f != L_e and not (abs(ret_f - L_e) <= tight * scaleL):
                    raise Violation("C08.ret", "GN call %d: returned %.12g, loss at the new parameters %.12g" %
                                    (ci, ret_f, L_e), ci, "gn:ret")
                if not (abs(float(opt.last) - L_s) <= tight * scaleL):
                    raise Violation("C08.gn-last", "GN call %d: optimizer.last %.12g, loss at the previous parameters "
                                    "%.12g" % (ci, float(opt.last), L_s), ci, "gn:last")
                out.sigs.add("GN|%s" % prev_sig); prev_sig = "gn"
                out.nontrivial = out.nontrivial or bool(plan["faults"])
                continue
            if n_solves > c["reject"] + 1:
                raise Violation("C08.trials", "call %d made %d trials, reject=%d" % (ci, n_solves, c["reject"]), ci, "trials")
            returned = [r_ for r_ in srec if not r_.get("raised")]
            if len(trec) != len(returned):
                raise Violation("C08.strategy-calls", "call %d: %d trials completed but the strategy was updated %d "
                                "times" % (ci, len(returned), len(trec)), ci, "strategy-calls")
            n_rej = 0
            pattern = []
            ended_by_raise = bool(srec) and srec[-1].get("raised", False)
            for k, rs_ in enumerate(srec):
                s_k = rs_["snap"]
                if rs_.get("raised"):
                    pattern.append("raise")
                    continue
                tk = trec[len([x for x in srec[:k] if not x.get("raised")])]
                if not c["kernel"] and weight is None:
                    # what the strategy is told: the residual at the parameters the call was given (computed once per call;
                    # without kernel and weight that is the plain model residual), not something that moved with the
                    # parameters while trials were made
                    cur_ = om.snapshot(model); om.restore(model, p_s)
                    Rh = torch.cat([r_.reshape(-1) for r_ in _residuals(model, data, targets)])
                    om.restore(model, cur_)
                    Rt = tk["R"].reshape(-1)
                    if Rt.shape != Rh.shape or not bool(((Rt - Rh).abs() <= tight * (1 + Rh.abs())).all()):
                        raise Violation("C08.strategy-args", "call %d trial %d: the residual handed to the strategy is not the "
                                        "residual at the parameters the call started from (max difference %.3e)" %
                                        (ci, k, float((Rt - Rh).abs().max()) if Rt.shape == Rh.shape else float("nan")),
                                        ci, "strategy-args:R")
                    out.probe("strategy-residual-checked")
                L_k = hloss(tk["trial"])
                if math.isnan(L_k) or L_k == -math.inf:
                    out.declined("trial-loss-nonfinite"); pattern.append("nan"); break
                if L_k == math.inf:
                    out.probe("trial-loss=+inf")
                    if float(tk["loss"]) != math.inf:
                        raise Violation("C08.trial-loss", "call %d trial %d: the trial parameters have loss +inf, the strategy was "
                                        "told %r" % (ci, k, float(tk["loss"])), ci, "trial-loss:inf")
                if L_k != math.inf and not (abs(float(tk["loss"]) - L_k) <= tight * (1 + abs(L_k))):
                    raise Violation("C08.trial-loss", "call %d trial %d: strategy was told loss %.12g, the trial "
                                    "parameters have loss %.12g" % (ci, k, float(tk["loss"]), L_k), ci, "trial-loss")
                if not (abs(float(tk["last"]) - L_s) <= tight * scaleL):
                    raise Violation("C08.trial-last", "call %d trial %d: strategy was told last=%.12g, the loss before "
                                    "the trial is %.12g" % (ci, k, float(tk["last"]), L_s), ci, "trial-last")
                last_trial = (k == n_solves - 1)
                if not last_trial:
                    # the loop went on: this trial was rejected -> parameters must be back
                    nxt = srec[k + 1]["snap"]
                    Dn = float(rs_["D"].abs().max()) if rs_["D"] is not None else 0.0
                    blow = max(float(t_i.abs().max()) / (1 + float(s_i.abs().max())) for t_i, s_i in zip(tk["trial"], s_k) if t_i.numel())
                    if not (blow <= 1e6 and Dn <= 30):         # also: a trial that overflowed to inf / NaN
                        out.declined("C08.restore(overflowing trial)"); n_rej += 1; pattern.append("reject"); continue
                    slack = _retraction_slack(kinds, rs_["D"], s_k, eps)
                    def tol_fn(i, xa, xb, t_=tk["trial"], Dn=Dn, slack=slack):
                        big = max(np.abs(xa).max() if xa.size else 0, float(t_[i].abs().max()) if t_[i].numel() else 0)
                        return 200 * eps * TS * (1 + big) * (1 + min(Dn, 1e3)) * slack.get(("mult", i), 1.0) + slack.get(i, 0.0)
                    _close_params(nxt, s_k, kinds, tol_fn, "call %d: after rejected trial %d the parameters are not "
                                  "those before the trial" % (ci, k), ci, "C08.restore", "restore")
                    n_rej += 1; pattern.append("reject")
                    if L_k < L_s - tight * scaleL:
                        out.probe("rejected-a-better-trial")
                else:
                    # the call ended with this trial kept
                    for a_, b_ in zip(p_e, tk["trial"]):
                        if not _teq(a_, b_):
                            raise Violation("C08.kept", "call %d: parameters after the call differ from the last "
                                            "trial's parameters although no rejection followed" % ci, ci, "kept")
                    if (L_k == math.inf) != (ret_f == math.inf) or (L_k != math.inf and abs(ret_f - L_k) > tight * (1 + abs(L_k))):
                        raise Violation("C08.ret", "call %d: returned %.12g, loss at the parameters left behind %.12g"
                                        % (ci, ret_f, L_k), ci, "ret")
                    exhausted = (n_rej >= c["reject"])
                    if L_k > L_s + tight * scaleL and not exhausted:
                        raise Violation("C08.accepted-worse", "call %d: trial %d raised the loss from %.12g to %.12g "
                                        "and was kept after only %d rejection(s), reject=%d" %
                                        (ci, k, L_s, L_k, n_rej, c["reject"]), ci, "accepted-worse")
                    pattern.append("exhausted" if (L_k > L_s + tight * scaleL) else "zero" if L_k == L_s else "accept")
            if ended_by_raise:
                k = n_solves - 1
                for a_, b_ in zip(p_e, srec[k]["snap"]):
                    if not _teq(a_, b_):
                        raise Violation("C08.solver-raise", "call %d: solver raised at trial %d but the parameters after "
                                        "the call are not those before that trial" % (ci, k), ci, "raise:params")
                if not (abs(ret_f - L_s) <= tight * scaleL):
                    raise Violation("C08.solver-raise", "call %d: solver raised at trial %d; returned loss %.12g, loss "
                                    "before the trial %.12g" % (ci, k, ret_f, L_s), ci, "raise:loss")
                out.probe("call:raise-first-trial" if k == 0 else "call:raise-after-reject")
            if "nan" in pattern:
                break
            prev_bitwise = (prev_bitwise and n_rej == 0) if ended_by_raise else True
            prev_ret = ret_f
            if inf_end:
                break           # an exhausted call may legitimately end at +inf; nothing further to learn from this run
            if int(opt.reject_count) != n_rej:
                raise Violation("C08.reject-count", "call %d: optimizer.reject_count=%d, rejections observed at the "
                                "solver seam: %d" % (ci, int(opt.reject_count), n_rej), ci, "reject-count")
            if ret_f > L_s + tight * scaleL and not (n_rej >= c["reject"] and not ended_by_raise):
                raise Violation("C08.accepted-worse", "call %d returned loss %.12g > loss at the given parameters "
                                "%.12g without exhausting reject=%d" % (ci, ret_f, L_s, c["reject"]), ci, "worse")
            if pattern and pattern[-1] == "accept":
                out.probe("call:accept-first" if len(pattern) == 1 else "call:reject-then-accept")
            if pattern and pattern[-1] == "exhausted":
                out.probe("call:exhausted")
            if pattern and pattern[-1] == "zero":
                out.probe("call:zero-step")
            # ---- damping transitions
            _damping_oracle(c, st, trec, pg, out, ci, L_s, dtype)
            sig = "%s|%s|%s" % (st["kind"], ",".join(pattern[:6]), prev_sig)
            out.sigs.add(sig); prev_sig = ",".join(pattern[:3])
            if any(x in ("reject", "raise", "exhausted") for x in pattern):
                out.nontrivial = True
        # =============================== C07 ===============================
        else:
            if n_solves == 0:
                raise Violation("C07.no-trial", "%s call %d returned without handing any linear system to the solver" %
                                (c["opt"], ci), ci, "no-trial")
            _c07_call(c, model, kinds, data, targets, call_w, opt, srec, trec, p_s, p_e, damp0, out, ci, plan, tr)
            out.nontrivial = True
            out.sigs.add("%s|%s|%s|%s|%s|n%d" % (c["opt"], c["weights"], c["corrector"], c["solver"],
                                                 "+".join(r_["tpl"] for r_ in spec["residuals"]), min(n_solves, 4)))


def _damping_oracle(c, st, trec, pg, out, ci, L_s, dtype):
    kind = st["kind"]
    margin = 1e-3 if dtype == torch.float32 else 1e-9
    for k, t in enumerate(trec):
        b, a = t["before"], t["after"]
        if kind == "Constant":
            if a["damping"] != b["damping"]:
                raise Violation("C08.damping", "call %d trial %d: Constant strategy changed damping %r -> %r" %
                                (ci, k, b["damping"], a["damping"]), ci, "damping:Constant")
            continue
        J = t["J"].double().numpy(); D = t["D"].double().numpy().reshape(-1, 1); R = t["R"].double().numpy().reshape(-1, 1)
        num = float(t["last"]) - float(t["loss"])
        if not math.isfinite(num):
            out.declined("C08.damping(rho ill-defined)"); continue
        rr = float((R * R).sum())
        den = rr - float(((R + J @ D) ** 2).sum())                       # the documented, un-factored form
        den2 = -float(((J @ D).T @ (2 * R + J @ D)).squeeze())           # factored, float64
        with torch.no_grad():                                             # factored, in the run's own precision
            JD = t["J"] @ t["D"].reshape(-1, 1)
            den3 = -float((JD.mT @ (2 * t["R"].reshape(-1, 1) + JD)).squeeze())
        hi, lo = pg["high"], pg["low"]
        br = lambda q: "high" if q > hi else "mid" if q > lo else "low"
        if not all(math.isfinite(v) for v in (num, den, den2, den3)) or 0.0 in (den, den2, den3):
            out.declined("C08.damping(rho ill-defined)"); continue
        rho = num / den
        if len({br(num / den), br(num / den2), br(num / den3)}) > 1:
            out.declined("C08.damping(rho ill-conditioned)"); continue
        if min(abs(rho - hi), abs(rho - lo)) <= margin * max(1.0, abs(rho)):
            out.declined("C08.damping(rho near threshold)"); continue
        branch = "high" if rho > hi else "mid" if rho > lo else "low"
        mn, mx = st["min"], st["max"]
        clamp = lambda v: max(mn, min(v, mx))
        if kind == "Adaptive":
            want = b["damping"] * (pg["down"] if branch == "high" else 1.0 if branch == "mid" else pg["up"])
            wc = clamp(want)
            if wc != want:
                out.probe("damping:clamped-min" if wc > want else "damping:clamped-max")
            if not math.isclose(a["damping"], wc, rel_tol=1e-12, abs_tol=0.0):
                raise Violation("C08.damping", "call %d trial %d: Adaptive, step quality %.6g (%s branch): damping %r -> "
                                "%r, documented %r" % (ci, k, rho, branch, b["damping"], a["damping"], wc), ci,
                                "damping:Adaptive:" + branch)
            if not (mn <= a["damping"] <= mx):
                raise Violation("C08.damping", "call %d trial %d: damping %r outside [%r, %r]" % (ci, k, a["damping"], mn, mx),
                                ci, "damping:range")
        else:
            radius = 1.0 / b["damping"]
            if branch == "high":
                wr, wd = radius * pg["up"], st["down"]; out.probe("trust:down-reset")
            elif branch == "mid":
                wr, wd = radius, st["down"]; out.probe("trust:down-reset")
            else:
                wr, wd = radius * b["down"], b["down"] * pg["factor"]; out.probe("trust:down-shrunk")
            wd, wr2 = clamp(wd), clamp(wr)
            if wr2 != wr:
                out.probe("damping:clamped-min" if wr2 > wr else "damping:clamped-max")
            if not (math.isclose(a["radius"], wr2, rel_tol=1e-12) and math.isclose(a["down"], wd, rel_tol=1e-12)
                    and math.isclose(a["damping"], 1.0 / wr2, rel_tol=1e-12)):
                raise Violation("C08.damping", "call %d trial %d: TrustRegion, step quality %.6g (%s branch): (radius, "
                                "down, damping) %r -> %r, documented (%r, %r, %r)" %
                                (ci, k, rho, branch, (radius, b["down"], b["damping"]), (a["radius"], a["down"], a["damping"]),
                                 wr2, wd, 1.0 / wr2), ci, "damping:TrustRegion:" + branch)
            if not (mn <= a["radius"] <= mx and mn <= a["down"] <= mx):
                raise Violation("C08.damping", "call %d trial %d: radius %r / down %r outside [%r, %r]" %
                                (ci, k, a["radius"], a["down"], mn, mx), ci, "damping:range")


# ---------------------------------------------------------------------------------------------
# C07 reference: finite-difference Jacobian in tangent coordinates, documented normal equations

def _residuals(model, data, targets):
    with torch.no_grad():
        o = model(*data)
    outs = [r_.detach().clone() for r_ in (list(o) if isinstance(o, tuple) else [o])]   # a model may return a parameter itself
    if targets is not None:
        outs = [r_ - t for r_, t in zip(outs, targets)]
    return outs


def _fd_jacobian(model, kinds, data, targets, p_s):
    """Per residual: (R_i tensor, J_i numpy [numel(R_i), total columns], error estimate).  Columns follow
    pypose's layout: every non-frozen parameter contributes numel columns; the padding slot of a group
    parameter gets a zero column."""
    om.restore(model, p_s)
    R0 = _residuals(model, data, targets)
    cols = []
    for pi, (p, ps) in enumerate(zip(model.plist(), kinds)):
        if ps.get("frozen"):
            continue
        if ps["kind"] == "euclid":
            cols += [(pi, it, 0, True) for it in range(p.numel())]
        else:
            sd = p.shape[-1]; md = refmath.ADIM[ps["fam"]] if ps["kind"] == "grp" else sd
            for it in range(p.numel() // sd):
                cols += [(pi, it, sl, sl < md) for sl in range(sd)]
    Js = [np.zeros((r_.numel(), len(cols))) for r_ in R0]
    errs = [0.0 for _ in R0]
    h = 1e-4
    for cidx, (pi, it, sl, live) in enumerate(cols):
        if not live:
            continue
        vals = {}
        for mult in (1, -1, 2, -2):
            om.perturb(model, p_s, pi, it, sl, mult * h)
            vals[mult] = [r_.double().numpy().reshape(-1) for r_ in _residuals(model, data, targets)]
        for j in range(len(R0)):
            d1 = (vals[1][j] - vals[-1][j]) / (2 * h)
            d2 = (vals[2][j] - vals[-2][j]) / (4 * h)
            Js[j][:, cidx] = (4 * d1 - d2) / 3
            errs[j] = max(errs[j], float(np.abs(d1 - d2).max()) / 3 * 0.1 + 1e-11 * (1 + float(np.abs(d1).max())))
    om.restore(model, p_s)
    return R0, Js, errs, cols


def _relerr(a, b):
    a = np.asarray(a, dtype=np.float64); b = np.asarray(b, dtype=np.float64)
    if a.shape != b.shape:
        return float("inf")
    if np.isfinite(b).all() and not np.isfinite(a).all():
        return float("inf")
    return float(np.abs(a - b).max()) / (1e-300 + float(np.abs(b).max()))


def _maxdiff(a, b):
    """max |a - b|; +inf when a holds inf / NaN where the reference b is finite (a NaN must never compare as 'close')."""
    a = np.asarray(a, dtype=np.float64); b = np.asarray(b, dtype=np.float64)
    if np.isfinite(b).all() and not np.isfinite(a).all():
        return float("inf")
    return float(np.abs(a - b).max()) if a.size else 0.0


# closed-form first derivatives of the kernels (x = squared residual norm), written from the documented formulas
def _rho1(name, delta, x):
    d2 = delta * delta
    if name == "Huber":
        return np.where(np.sqrt(x) < delta, 1.0, delta / np.sqrt(np.where(x > 0, x, 1.0)))
    if name == "PseudoHuber":
        return 1.0 / np.sqrt(x / d2 + 1.0)
    if name == "Cauchy":
        return 1.0 / (x / d2 + 1.0)
    if name == "SoftLOne":
        return delta / np.sqrt(1.0 / d2 + x)
    if name == "Arctan":
        return 1.0 / (1.0 + (x / d2) ** 2)
    if name == "Scale":
        return np.full_like(x, min(delta, 1.0))
    raise ValueError(name)


def _ref_fasttriggs(kd, r_, J_):
    """FastTriggs as documented: R_i <- sqrt(rho'(|R_i|^2)) R_i, the rows of J belonging to item i scaled alike."""
    R = r_.double().numpy()
    x = (R * R).sum(-1, keepdims=True)
    sc = np.sqrt(_rho1(kd["name"], kd["delta"], x))
    return (sc * R).reshape(-1), np.broadcast_to(sc, R.shape).reshape(-1, 1) * np.asarray(J_, dtype=np.float64)


def _ref_corrected(c, R0, Js):
    Rc, Jc = [], []
    for j, (r_, J_) in enumerate(zip(R0, Js)):
        ks_ = c["kernel"]
        kd = None if not ks_ else (ks_[j] if len(ks_) > 1 else ks_[0])
        if kd is None:
            Rc.append(r_.double().numpy().reshape(-1)); Jc.append(np.array(J_, dtype=np.float64)); continue
        if c["corrector"] == "Triggs":
            kobj = KERNELS[kd["name"]](kd["delta"])
            with torch.no_grad():
                rr, jj = pp.optim.corrector.Triggs(kobj)(R=r_.clone(), J=torch.tensor(J_, dtype=r_.dtype))
            Rc.append(rr.double().numpy().reshape(-1)); Jc.append(jj.double().numpy().reshape(J_.shape))
        else:
            rr, jj = _ref_fasttriggs(kd, r_, J_)
            Rc.append(rr); Jc.append(jj)
    return Rc, Jc


def _ref_system_moderate(c, model, kinds, data, targets, snap):
    """True when, at the parameters `snap`, residuals and the documented corrected Jacobian are finite and far from
    overflow (so a finite linear system is what the documentation promises)."""
    cur = om.snapshot(model)
    try:
        R0, Js, errs, cols = _fd_jacobian(model, kinds, data, targets, snap)
        if c["corrector"] == "Triggs":
            return False        # Triggs is a trusted component here: no independent statement about its output
        Rc, Jc = _ref_corrected(c, R0, Js)
        vals = [np.abs(v).max() if v.size else 0.0 for v in Rc + Jc]
        return bool(np.isfinite(vals).all()) and max(vals + [0.0]) < 1e30
    except Exception:
        return False
    finally:
        om.restore(model, cur)


def _c07_call(c, model, kinds, data, targets, weight, opt, srec, trec, p_s, p_e, damp0, out, ci, plan, tr):
    TOLJ = 2e-7 * TS
    R0, Js, errs, cols = _fd_jacobian(model, kinds, data, targets, p_s)
    if any(ps.get("frozen") for ps in kinds):
        out.probe("frozen-param")
    if len(R0) > 1:
        out.probe("two-residuals")
    if not c["vectorize"]:
        out.probe("vectorize-off")
    # which corrector belongs to which residual is decided here, from the configuration (kernel i -> its corrector,
    # no kernel -> none).  FastTriggs (also what "auto" means) is re-computed from the closed-form kernel derivatives;
    # only the Triggs class is used as a trusted component
    Rc, Jc = _ref_corrected(c, R0, Js)
    if not all(np.isfinite(v).all() for v in Rc + Jc):
        out.declined("C07(reference non-finite)"); return
    Rv = np.concatenate(Rc); Jm = np.concatenate(Jc, axis=0)
    jscale = float(np.abs(Jm).max()) + 1e-300
    fd_rel = max(errs) / jscale
    if fd_rel > TOLJ / 10:
        out.declined("C07(fd-error)"); return
    if not np.abs(Jm).sum(0).all():
        out.probe("unused-columns")
    W = _full_weight(weight, R0)
    if c["weights"] != "none":
        out.probe("weights:" + c["weights"])
    if c["kernel"]:
        out.probe("kernel")
    if c["corrector"] == "Triggs":
        out.probe("triggs")
    WJ = Jm if W is None else W @ Jm
    WR = Rv if W is None else W @ Rv
    ncol = Jm.shape[1]
    kctx = "%s:%s" % (c["opt"], "frozen" if any(ps.get("frozen") for ps in kinds) else "free")
    # ---- strategy seam: J and R as documented (post-corrector)
    for k, t in enumerate(trec):
        if _relerr(t["J"].double().numpy(), Jm) > TOLJ or _maxdiff(t["R"].double().numpy().reshape(-1), Rv) > 1e-9 * (1 + np.abs(Rv).max()):
            raise Violation("C07.jacobian", "call %d trial %d: the Jacobian / residual handed to the strategy differs from "
                            "the finite-difference tangent-space Jacobian by %.3e relative" %
                            (ci, k, _relerr(t["J"].double().numpy(), Jm)), ci, "jacobian:" + kctx)
    if c["opt"] == "GN":
        out.probe("gn")
        rs_ = srec[0]
        A, b = rs_["A"].double().numpy(), rs_["b"].double().numpy().reshape(-1)
        if A.shape != WJ.shape or _relerr(A, WJ) > TOLJ:
            raise Violation("C07.gn-system", "GN call %d: solver saw A with shape %s, documented W J has shape %s; relative "
                            "difference %.3e" % (ci, A.shape, WJ.shape, _relerr(A, WJ)), ci, "gn-system:A:" + kctx)
        if _maxdiff(b, -WR) > TOLJ * (1 + np.abs(WR).max()):
            raise Violation("C07.gn-system", "GN call %d: solver saw b != -W R (max diff %.3e)" %
                            (ci, float(np.abs(b + WR).max())), ci, "gn-system:b:" + kctx)
        if rs_["fault"] is None and rs_["honest"] is not None:
            sv = np.linalg.svd(WJ, compute_uv=False)
            rank_gap = sv[sv > 1e-10 * sv[0]]
            # singular values between "exactly zero" (padding / unused columns) and the reference's cut-off are kept by
            # torch.linalg.pinv (cut-off max(m,n) eps) and dropped here: the rank is ambiguous, no verdict
            ambiguous = bool(((sv <= 1e-10 * sv[0]) & (sv > 1e-18 * sv[0])).any())
            if len(rank_gap) and rank_gap[-1] / sv[0] > 1e-7 and not ambiguous:
                Dref = np.linalg.pinv(WJ, rcond=1e-10) @ (-WR)
                err = float(np.abs(rs_["honest"].double().numpy().reshape(-1) - Dref).max())
                if not (err <= 1e-5 * TS * (1 + np.abs(Dref).max()) / min(1.0, rank_gap[-1] / sv[0] * 1e3)):
                    raise Violation("C07.gn-step", "GN call %d: step differs from the minimum-norm least-squares solution "
                                    "by %.3e" % (ci, err), ci, "gn-step")
            else:
                out.declined("C07.gn-step(rank)")
    else:
        A0 = Jm.T @ WJ
        b0 = -(Jm.T @ WR)
        dg = np.clip(np.diag(A0).copy(), c["min"], c["max"])
        if (np.diag(A0) < c["min"]).any():
            out.probe("clamp-min-bites")
        if (np.diag(A0) > c["max"]).any():
            out.probe("clamp-max-bites")
        Aref = A0.copy(); np.fill_diagonal(Aref, dg)
        lam = damp0
        tri = 0
        for k, rs_ in enumerate(srec):
            Aref = Aref + lam * np.diag(np.diag(Aref))
            A, b = rs_["A"].double().numpy(), rs_["b"].double().numpy().reshape(-1)
            out.probe("lm:first-trial" if k == 0 else "lm:trial>=2")
            ascale = float(np.abs(Aref).max())
            if A.shape != Aref.shape:
                raise Violation("C07.lm-system", "LM call %d trial %d: A has shape %s, documented %s (columns: non-frozen "
                                "parameters)" % (ci, k, A.shape, Aref.shape), ci, "lm-system:shape:" + kctx)
            offd = _maxdiff(A, Aref)
            if offd > 3 * TOLJ * ascale:
                dA, dR = np.diag(A), np.diag(Aref)
                which = "diagonal" if float(np.abs((A - np.diag(dA)) - (Aref - np.diag(dR))).max()) <= 3 * TOLJ * ascale else "matrix"
                raise Violation("C07.lm-system", "LM call %d trial %d: A differs from clampdiag(J^T W J, min, max) damped "
                                "%d time(s) (lambda now %.3g) by %.3e relative (%s)" %
                                (ci, k, k + 1, lam, offd / ascale, which), ci, "lm-system:A:%s:%s" % (which, "first" if k == 0 else "later"))
            if _maxdiff(b, b0) > 3 * TOLJ * (1 + np.abs(b0).max()):
                raise Violation("C07.lm-system", "LM call %d trial %d: b != -J^T W R (max diff %.3e, scale %.3e)" %
                                (ci, k, float(np.abs(b - b0).max()), np.abs(b0).max()), ci, "lm-system:b")
            if rs_.get("raised"):
                continue
            if rs_["fault"] is None and rs_["honest"] is not None:
                Dh = rs_["honest"].double().numpy().reshape(-1)
                res = float(np.abs(A @ Dh - b).max())
                ev = np.linalg.eigvalsh(0.5 * (A + A.T))
                if ev[0] <= 1e-8 * ev[-1]:
                    # clamping the diagonal can make A indefinite; what a solver does with that is C10's business
                    out.declined("C07.solve(A not positive definite)")
                elif type(getattr(opt.solver, "inner", None)).__name__ == "CG":
                    # an iterative solver: the documented stopping rule is ||b - A x|| < tol ||b|| (tol = 1e-5 by default)
                    # within 10 n iterations; judged where conjugate gradients reaches that comfortably
                    if ev[-1] / ev[0] > 1e4:
                        out.declined("C07.solve(CG on an ill-conditioned system)")
                    else:
                        out.probe("solve:CG")
                        r2, b2 = float(np.linalg.norm(A @ Dh - b)), float(np.linalg.norm(b))
                        if not r2 <= 1.001e-5 * b2 + 1e-11 * (np.abs(A).max() * np.abs(Dh).max() * len(b) + b2):
                            raise Violation("C07.solve", "LM call %d trial %d: the CG step leaves ||A delta - b|| = %.3e with "
                                            "||b|| = %.3e (documented stopping rule: below 1e-5 ||b||)" % (ci, k, r2, b2), ci, "solve:cg")
                elif not (res <= 1e-7 * TS * (np.abs(A).max() * np.abs(Dh).max() + np.abs(b).max() + 1e-300) * max(1.0, np.sqrt(np.linalg.cond(A)) * 1e-3)):
                    raise Violation("C07.solve", "LM call %d trial %d: the step does not solve A delta = b (residual %.3e)"
                                    % (ci, k, res), ci, "solve")
            lam = trec[tri]["after"]["damping"]
            # ---- the update applied for this trial: retraction by the returned delta
            _check_update(kinds, rs_["snap"], trec[tri]["trial"], rs_["D"], cols, ci, k)
            tri += 1
    if c["opt"] == "GN":
        _check_update(kinds, srec[0]["snap"], p_e, srec[0]["D"], cols, ci, 0)
    # frozen parameters never move
    for i, ps in enumerate(kinds):
        if ps.get("frozen") and not torch.equal(p_s[i], p_e[i]):
            raise Violation("C07.frozen", "call %d: parameter %d has requires_grad=False but was changed" % (ci, i), ci, "frozen")


def _check_update(kinds, before, after, D, cols, ci, k):
    """after == before (+) D in tangent coordinates: addition for Euclidean / algebra parameters,
    Exp(delta) @ X for group parameters (compared as matrices), frozen parameters untouched."""
    Dv = D.detach().double().numpy().reshape(-1)
    if not np.isfinite(Dv).all() or np.abs(Dv).max() > 1e3:
        return          # a non-finite / astronomically large step (solver garbage on an indefinite A): no verdict
    if not all(bool(torch.isfinite(t_.detach()).all()) for t_ in list(before) + list(after)):
        return          # parameters already at inf / NaN (left behind by an overflowing trial): no verdict
    if Dv.shape[0] != len(cols):
        raise Violation("C07.update", "call %d trial %d: step has %d entries for %d tangent columns" %
                        (ci, k, Dv.shape[0], len(cols)), ci, "update:shape")
    per = {}
    for cidx, (pi, it, sl, live) in enumerate(cols):
        per.setdefault(pi, []).append(Dv[cidx])
    # round-off of pypose's own se3 / sim3 Exp in the thin bands 0 < theta, |sigma| << 1 (see _retraction_slack): the
    # reference exponential is exact there, the library's closed forms are not; that is C01's subject, not this one's
    slack = _retraction_slack(kinds, D, before, _eps(before[0].dtype) if before else 2.3e-16)
    for i, ps in enumerate(kinds):
        if ps.get("frozen"):
            if not torch.equal(before[i], after[i]):
                raise Violation("C07.frozen", "call %d trial %d: frozen parameter %d moved" % (ci, k, i), ci, "frozen")
            continue
        d = np.array(per[i])
        kind_r, want = om.retract_ref(before[i], ps, d)
        _, got = om.as_ref(after[i], ps)
        err = float(np.abs(got - want).max())
        if not err <= 1e-9 * TS * (1 + float(np.abs(want).max())) * (1 + float(np.abs(d).max())) + slack.get(i, 0.0):
            raise Violation("C07.update", "call %d trial %d: parameter %d (%s %s) after the update differs from %s by %.3e" %
                            (ci, k, i, ps["kind"], ps.get("fam", ""),
                             "Exp(delta) @ X" if ps["kind"] == "grp" else "p + delta", err), ci,
                            "update:" + ps["kind"])


def describe(prop):
    common_real = ["pypose.optim.LevenbergMarquardt.step", "pypose.optim.GaussNewton.step", "RobustModel (forward, "
                   "residuals, flatten_row_jacobian, normalize_RWJ, loss)", "pypose.optim.functional.modjac",
                   "strategy.Constant / Adaptive / TrustRegion (inside the recording proxy)", "corrector.FastTriggs / "
                   "Triggs", "kernels", "solver.PINV / LSTSQ / Cholesky / CG (inside the fault proxy)",
                   "_Optimizer.update_parameter, LieTensor add_ / Exp / Log / Inv / @ / Act and their backward passes"]
    stub = ["SolverProxy: decides honest / raise / negate / overshoot / zero / noise / scripted jump per solve and "
            "records (A, b, parameter snapshot)", "StrategyProxy: recording shell around the real strategy",
            "generated residual models and their data"]
    if prop == "C08":
        return {"rule": "one run = one generated model (1-3 parameters: Euclidean / so3 se3 rxso3 sim3 / SO3 SE3 RxSO3 Sim3, "
                        "1-2 residuals from Exp, Log, Inv, @, Act, +, *, cubic term; or the scripted scalar model), one "
                        "optimizer (LM with Constant / Adaptive / TrustRegion and random legal hyper-parameters, reject in "
                        "{0,1,2,3,5,16}, or GN), float32/float64, and a history of <= 30 step() calls on fixed data with a "
                        "fault plan at the solver seam (sparse / dense / burst / whole-call / scripted 'first k trials "
                        "increase the loss'); distinct = distinct (strategy, per-trial outcome pattern of the call, "
                        "pattern of the previous call); non-trivial = the run contains a reject, raise or exhausted call",
                "fault_kinds": ["solver-raise (5 exception types)", "solver-negate", "solver-overshoot", "solver-zero",
                                "solver-noise", "solver-huge (trial loss overflows to +inf)", "solver-scripted (prescribed loss sequence)",
                                "natural solver failure (real Cholesky/LSTSQ raising)"],
                "real": common_real, "stub": stub,
                "assumptions": ["harness loss = sum_i kernel_i(|r_i|^2) from the model output (weights do not enter the "
                                "loss, as in the library)", "a trial with exactly equal loss may be kept or rejected", "+inf trial losses are judged (worse than anything), NaN ones end the run without a verdict",
                                "the damping oracle abstains when the step quality is non-finite or within 1e-9 (1e-3 in "
                                "float32) of a threshold; non-finite trial losses end the run without a verdict"]}
    return {"rule": "same simulated optimizer as C08 (float64 only, <= 6 calls), plus a wider configuration spread: weights "
                    "in the shapes RxR, NxRxR, full batch x RxR, kernels with auto / FastTriggs / Triggs correctors, "
                    "diagonal clamps [min,max] that bite, vectorize on/off, frozen parameters; sim3/Sim3 are excluded from "
                    "Exp/Log templates (their Jacobians are documented as truncated series); distinct = distinct "
                    "(optimizer, weight shape, corrector, solver, residual templates, trials in the call)",
            "fault_kinds": ["solver-raise", "solver-negate", "solver-overshoot", "solver-zero", "solver-noise"],
            "real": common_real, "stub": stub,
            "assumptions": ["reference Jacobian = Richardson central finite differences of the real forward ops in tangent "
                            "coordinates (left perturbation through an independent matrix exponential); abstains when its "
                            "own error estimate exceeds 2e-8 relative; comparison tolerance 2e-7 relative",
                            "FastTriggs (also the automatic corrector) is re-computed from closed-form kernel derivatives; "
                            "the Triggs class is used as a trusted component (C09 is not claimed)",
                            "CG steps are judged by CG's documented stopping rule (||A x - b|| < 1e-5 ||b||) where cond(A) <= 1e4",
                            "starts: random / exactly zero residual / one observation explained exactly / 1e-6..1e-8 from "
                            "the solution"]}
