"""filtersim -- C13: plant + filter + reference Kalman filter in lock-step; the filter's own output is
fed back as the next prior for up to 50 steps; PF under a seeded RNG.

Real code: EKF, UKF, PF (forward and helpers), NLS (set_refpoint, A..D via autograd), bmv, bvv.
Stubs: the plant (linear systems written as NLS subclasses, time-invariant and time-indexed; smooth
nonlinear ones from clocksim's family with closed-form Jacobians) and the noise source.
"""
import os
import numpy as np
import torch
import pypose as pp

from ..core import rng, refmath, boundary
from ..core.outcome import Violation
from .clocksim import GenNLS, nls_params, nls_ref

NAME = "filtersim"
SIM_UNIT = "filter steps"
BUDGET = {"quick": {"runs": 6000, "wall": 80}, "thorough": {"runs": 60000, "wall": 1500}}
ISOLATE = "chunk"       # every chunk of runs in a forked child of a pristine worker: what a run sees of the process is a
                        # deterministic function of the runs before it in the same chunk (see runner.run_history_iso)
CHUNK = 64
SHRINK_LISTS = ("ops",)
PROBES = {"C13": ["prior-correlated", "prior-diagonal", "step>=10", "time-indexed", "ukf:k<0", "ukf:k>=0",
                  "ukf:default-k", "ukf:k-varies", "ekf:nonlinear", "R-exactly-diagonal", "QR-per-call", "QR-at-one-step-only", "ukf:user-msqrt", "twin-filter-retuned", "ukf:nonlinear-psd", "pf:judged", "pf:low-ess-judged", "pf:far-from-origin", "outlier-measurement", "dims>=4", "spread>=1e4"]}
TS = float(os.environ.get("PPSIM_TOLSCALE", "1"))
TOL = 1e-9 * TS


class LinNLS(pp.module.NLS):
    """x' = A_t x + B_t u + c1_t,  y = C_t x + D_t u + c2_t  (M_t = M0 + sin(0.3 t) M1 when time-indexed)."""
    def __init__(self, M, tv):
        super().__init__()
        self.M, self.tv = M, tv

    def mat(self, name, t):
        M0 = self.M[name]
        if not self.tv or t is None:
            return M0
        tt = torch.as_tensor(t).to(M0.dtype).reshape(-1)[0]
        return M0 + torch.sin(0.3 * tt) * self.M[name + "1"]

    def state_transition(self, x, u, t=None):
        return x @ self.mat("A", t).mT + u @ self.mat("B", t).mT + self.mat("c1", t)

    def observation(self, x, u, t=None):
        if getattr(self, "full_state", False):
            return x            # full-state observation written as `return state`: the argument itself comes back
        return x @ self.mat("C", t).mT + u @ self.mat("D", t).mT + self.mat("c2", t)


def generate(seed, tier, prop="C13"):
    r = rng.stream(seed, "config")
    filt = r.choice(["EKF", "EKF", "UKF", "UKF", "UKF", "PF"])
    n, m, q = r.randint(1, 6), r.randint(1, 6), r.randint(1, 6)
    plant = "linear"
    if filt == "EKF" and r.random() < 0.35:
        plant = "nonlinear"; n, m, q = min(n, 4), min(m, 3), min(q, 4)
    if filt == "UKF" and r.random() < 0.25:
        plant = "nonlinear"         # no closed-form posterior: only the covariance-validity clause is judged
    tv = r.random() < 0.35 and filt != "PF"
    kmode = r.choice(["default", "zero", "one", "three", "neg-half", "neg-most", "frac"])
    cfg = {"filter": filt, "n": n, "m": m, "q": q, "plant": plant, "tv": tv, "kmode": kmode,
           "qs": round(r.uniform(-3, 3), 2), "rs": round(r.uniform(-3, 3), 2), "ps": round(r.uniform(-3, 3), 2),
           "spread": r.choice([0, 1, 2, 4]), "diagP": r.random() < 0.3, "rho": r.choice([0.5, 0.9, 1.1]),
           "particles": r.choice([2000, 10000, 40000]), "omega": round(r.uniform(0.1, 1.2), 3),
           "kvary": r.random() < 0.3, "outlier": r.choice([0, 0, 0, 15, 40]),
           "pf_f32": r.random() < 0.35, "offset": r.choice([0.0, 0.0, 300.0]),
           "qr_at": r.choice(["ctor", "ctor", "call", "call-overrides", "call-once"]),
           "msqrt": r.choice(["default", "default", "lower-chol", "jitter-chol"]), "diagR": r.random() < 0.25}
    cfg["full_state_obs"] = plant == "linear" and r.random() < 0.15      # y = x, observation() returns its argument
    cfg["inplace_feedback"] = r.random() < 0.25     # the caller keeps estimate, covariance and input in buffers updated in place
    if filt == "PF":
        cfg["rs"] = round(r.uniform(-1, 2), 2); cfg["ps"] = round(r.uniform(-2, 1), 2); cfg["spread"] = r.choice([0, 1])
    ro = rng.stream(seed, "ops")
    nsteps = ro.randint(1, 50 if tier == "thorough" else 30) if filt != "PF" else ro.randint(1, 4)
    return {"engine": NAME, "seed": seed, "config": cfg, "ops": [{"id": i, "op": "step"} for i in range(nsteps)]}


def brief(plan):
    return {"config": plan["config"], "steps": len(plan["ops"])}


def simplify(plan):
    c = plan["config"]
    cands = []
    for k, v in (("n", 1), ("n", 2), ("m", 1), ("q", 1), ("q", 2), ("tv", False), ("spread", 0), ("diagP", True),
                 ("outlier", 0), ("pf_f32", False), ("offset", 0.0), ("kvary", False), ("msqrt", "default"), ("qr_at", "ctor"), ("diagR", False),
                 ("qs", 0.0), ("rs", 0.0), ("ps", 0.0), ("kmode", "default"), ("plant", "linear"), ("rho", 0.5)):
        if c.get(k) != v:
            cands.append({**plan, "config": dict(c, **{k: v})})
    return cands


def _spd(seed, name, n, scale_log10, spread):
    M = rng.randn(seed, (name, "M"), (n, n))
    Qm, _ = torch.linalg.qr(M)
    ev = torch.logspace(0, -float(spread), n, dtype=torch.float64) if n > 1 else torch.ones(1, dtype=torch.float64)
    S = (Qm * ev) @ Qm.mT * (10.0 ** scale_log10)
    return 0.5 * (S + S.mT)


def _kval(kmode, n):
    return {"default": None, "zero": 0.0, "one": 1.0, "three": 3.0, "neg-half": -0.5 if n > 0.5 else 0.0,
            "neg-most": -(n - 0.25), "frac": 0.37}[kmode]


def _psd(P, what, step, key, need, slack=0.0, eps=2.3e-16):
    """Symmetric PSD up to round-off.  `slack` is the absolute error the update formula itself is entitled
    to: eps * cond(S) * |P_predicted| (the posterior is a difference of two matrices of that size)."""
    M = P.detach().double().numpy()
    nrm = max(np.abs(M).max(), 1e-300)
    if not np.isfinite(M).all():
        raise Violation("C13.cov", "%s: covariance not finite" % what, step, key + ":nonfinite")
    allow = max(1e-10, 1e3 * eps) * TS * nrm + slack
    asym = np.abs(M - M.T).max()
    if asym > allow:
        raise Violation("C13.cov", "%s: covariance asymmetric by %.3e (norm %.3e, allowance %.3e)" % (what, asym, nrm, allow),
                        step, key + ":asym")
    if need:
        lam = np.linalg.eigvalsh(0.5 * (M + M.T))[0]
        if lam < -allow:
            raise Violation("C13.cov", "%s: covariance has eigenvalue %.3e (norm %.3e, allowance %.3e)" %
                            (what, lam, nrm, allow), step, key + ":psd")


def execute(plan, prop, out, tr):
    c, s = plan["config"], plan["seed"]
    filt, n, m, q = c["filter"], c["n"], c["m"], c["q"]
    if c.get("full_state_obs") and c["plant"] == "linear":
        q = n
    dt = torch.float32 if (filt == "PF" and c.get("pf_f32")) else torch.float64
    tr.ev("plan", c)
    g = lambda name, shape, sc=1.0: rng.randn(s, ("plant", name), shape, dt, sc)
    P_nl = None
    if c["plant"] == "linear":
        A = g("A", (n, n))
        A = A * (c["rho"] / torch.linalg.eigvals(A).abs().max().clamp_min(1e-3))
        M = {"A": A, "B": g("B", (n, m)), "C": g("C", (q, n)), "D": g("D", (q, m)), "c1": g("c1", (n,)), "c2": g("c2", (q,))}
        if c.get("full_state_obs"):
            M["C"], M["D"], M["c2"] = torch.eye(n, dtype=dt), torch.zeros(n, m, dtype=dt), torch.zeros(n, dtype=dt)
        for k in list(M):
            M[k + "1"] = 0.3 * g(k + "1", tuple(M[k].shape))
        if c.get("full_state_obs"):
            for k in ("C1", "D1", "c21"):
                M[k] = torch.zeros_like(M[k])
        model = LinNLS(M, c["tv"])
        if c.get("full_state_obs"):
            model.full_state = True
            out.probe("observation-returns-its-argument")
    else:
        P_nl = nls_params(s, n, m, q, 3, c["omega"])
        model = GenNLS(P_nl)
        out.probe("ekf:nonlinear")
    Q = _spd(s, "Q", n, c["qs"], c["spread"]).to(dt); R = _spd(s, "R", q, c["rs"], c["spread"]).to(dt)
    P = _spd(s, "P0", n, c["ps"], c["spread"]).to(dt)
    if c.get("diagR"):
        R = torch.diag(torch.diagonal(R)).contiguous()      # exactly zero off-diagonals (independent sensor channels)
        out.probe("R-exactly-diagonal")
    if c["diagP"]:
        P = torch.diag(torch.diagonal(P))
    if max(abs(c["qs"] - c["rs"]), abs(c["qs"] - c["ps"]), c["spread"]) >= 4:
        out.probe("spread>=1e4")
    if n >= 4:
        out.probe("dims>=4")
    x_true = g("x0", (n,))
    if filt == "PF" and c.get("offset"):
        x_true = x_true + c["offset"]           # a state far from the origin relative to its spread
        out.probe("pf:far-from-origin")
    x_est = (x_true + rng.randn(s, ("e0",), (n,), dt) * float(torch.sqrt(torch.diagonal(P)).mean())).to(dt)
    k = _kval(c["kmode"], n)
    # Q, R at construction, only per call, or per call overriding different ones given at construction
    qr_at = c.get("qr_at", "ctor")
    Qc, Rc = (Q, R) if qr_at in ("ctor", "call-once") else (None, None) if qr_at == "call" else (Q * 7.0 + 1.0, R * 0.3 + 2.0)
    qr_kw = {} if qr_at in ("ctor", "call-once") else {"Q": Q, "R": R}
    # "call-once": the constructor's Q, R apply at every step except step 0, which passes other ones explicitly
    Q_once, R_once = Q * 4.0 + 0.5 * torch.eye(n, dtype=dt), R * 0.25 + 0.7 * torch.eye(q, dtype=dt)
    if qr_at != "ctor":
        out.probe("QR-per-call")
    if filt == "EKF":
        f = pp.module.EKF(model, Qc, Rc)
    elif filt == "UKF":
        ms = c.get("msqrt", "default")
        if ms == "lower-chol":
            f = pp.module.UKF(model, Qc, Rc, msqrt=lambda M_: torch.linalg.cholesky(M_))      # the documented convention: lower factor
        elif ms == "jitter-chol":
            f = pp.module.UKF(model, Qc, Rc, msqrt=lambda M_: torch.linalg.cholesky(M_ + 0.0 * torch.eye(M_.shape[-1], dtype=M_.dtype)))
        else:
            f = pp.module.UKF(model, Qc, Rc)
        if ms != "default":
            out.probe("ukf:user-msqrt")
        out.probe("ukf:default-k" if k is None else "ukf:k<0" if k < 0 else "ukf:k>=0")
    else:
        f = pp.module.PF(model, Qc, Rc, particles=c["particles"])
    npd = lambda t: t.detach().double().numpy()
    if qr_at == "ctor" and rng.H(s, "twin") % 3 == 0:
        # a second filter built from the SAME covariance tensors is re-tuned: nothing may change for the first one,
        # nor in the caller's tensors
        Q0, R0 = Q.clone(), R.clone()
        twin = type(f)(model, Q, R) if filt != "PF" else pp.module.PF(model, Q, R, particles=10)
        twin.set_uncertainty(Q=Q * 5.0 + 1.0, R=R * 0.2 + 3.0)
        out.probe("twin-filter-retuned")
        if not (torch.equal(Q, Q0) and torch.equal(R, R0)):
            raise Violation("C13.mutation", "set_uncertainty on a second filter changed the covariance tensors the caller "
                            "passed to both constructors", 0, "mutation:set_uncertainty")
    LQ = np.linalg.cholesky(npd(Q)); LR = np.linalg.cholesky(npd(R))

    def mats(t):
        tt = torch.tensor(t) if c["tv"] else None
        return {k_: npd(model.mat(k_, tt)) for k_ in ("A", "B", "C", "D", "c1", "c2")}

    kmodes = ["default", "zero", "one", "three", "neg-half", "neg-most", "frac"]
    for o in plan["ops"]:
        i = o["id"]
        if c.get("kvary") and filt == "UKF":
            # one filter object, another sigma-point parameter at every step
            k = _kval(kmodes[rng.H(s, "k", i) % len(kmodes)], n)
            out.probe("ukf:k-varies")
        u_new = rng.randn(s, ("u", i), (m,), dt)
        if c.get("inplace_feedback") and i > 0:
            u.copy_(u_new)          # the same input buffer, refreshed in place
            boundary.refresh(u)
        else:
            u = u_new
        w = LQ @ rng.randn(s, ("w", i), (n,)).numpy(); v = LR @ rng.randn(s, ("v", i), (q,)).numpy()
        tval = 3 + 2 * i                     # the explicit time never equals the number of calls made so far
        targ = torch.tensor(tval) if (c["tv"] or c["plant"] == "nonlinear") else None
        if c["tv"]:
            out.probe("time-indexed")
        # ---- the plant moves, then it is observed
        if c["plant"] == "linear":
            Mt = mats(tval)
            xt = Mt["A"] @ npd(x_true) + Mt["B"] @ npd(u) + Mt["c1"] + w
            y = Mt["C"] @ xt + Mt["D"] @ npd(u) + Mt["c2"] + v
        else:
            xt = nls_ref(P_nl, npd(x_true), npd(u), float(tval))[0] + w
            y = nls_ref(P_nl, xt, npd(u), float(tval))[1] + v
        if c.get("outlier") and i == len(plan["ops"]) - 1:
            # 'all measurement values': an outlier k sigma away along a seeded direction, at the last step
            dirn = rng.randn(s, ("out", i), (q,)).numpy(); dirn /= np.linalg.norm(dirn) + 1e-300
            y = y + c["outlier"] * (LR @ dirn) * np.sqrt(q)
            out.probe("outlier-measurement")
        x_true = torch.tensor(xt, dtype=dt); y = torch.tensor(y, dtype=dt)
        offd = (P - torch.diag(torch.diagonal(P))).abs().max().item() > 1e-12 * P.abs().max().item()
        out.probe("prior-correlated" if offd else "prior-diagonal")
        if i >= 10:
            out.probe("step>=10")
        step_kw = dict(qr_kw)
        Qe, Re = Q, R
        if qr_at == "call-once" and i == 0:
            step_kw = {"Q": Q_once, "R": R_once}; Qe, Re = Q_once, R_once
            out.probe("QR-at-one-step-only")
        args = [t_.clone() for t_ in (x_est, y, u, P)]
        try:
            if filt == "UKF":
                xn, Pn = f(x_est, y, u, P, t=targ, k=k, **step_kw)
            else:
                xn, Pn = f(x_est, y, u, P, t=targ, **step_kw)
        except Exception as e:
            if filt == "UKF" and c["plant"] == "nonlinear" and ((3 - n) if k is None else k) < 0:
                # with a negative centre weight the predicted covariance of a nonlinear model need not be positive
                # definite, and the filter's own Cholesky refuses it: outside what the property promises
                out.declined("C13.ukf(negative centre weight, nonlinear: no promise)"); break
            raise Violation("C13.raises", "%s step %d raised %s: %s" % (filt, i, type(e).__name__, str(e)[:300]), i,
                            "raises:" + filt)
        for a, b, nm in zip((x_est, y, u, P), args, ("x", "y", "u", "P")):
            if not torch.equal(a, b):
                raise Violation("C13.mutation", "%s modified its argument %s" % (filt, nm), i, "mutation")
        tr.ev("step", i, xn, Pn)
        out.sim_time += 1; out.ops += 1
        xe, Pe, un, yn = npd(x_est), npd(P), npd(u), npd(y)
        if filt == "UKF" and c["plant"] == "nonlinear":
            kk = (3 - n) if k is None else k
            out.probe("ukf:nonlinear-psd")
            pmax = float(P.abs().max() + Q.abs().max())
            # conditioning of the innovation covariance: |dg/dx|^2 grows with |x|^2 through the quadratic term of g
            gx = 100.0 * (1.0 + float(x_est.abs().max()) + float(xn.abs().max())) ** 2
            kap = 1.0 + gx * pmax / max(float(torch.linalg.eigvalsh(R)[0]), 1e-300)
            _psd(Pn, "UKF step %d (nonlinear plant, n=%d, k=%s)" % (i, n, k), i, "psd:UKF:nonlinear", need=(kk >= 0),
                 slack=1e3 * 2.3e-16 * kap * pmax)
        elif filt in ("EKF", "UKF"):
            if c["plant"] == "linear":
                try:
                    xr, Pr, info = refmath.kalman_step(xe, Pe, un, yn, Mt["A"], Mt["B"], Mt["C"], Mt["D"], Mt["c1"], Mt["c2"],
                                                       npd(Qe), npd(Re))
                except np.linalg.LinAlgError:
                    out.declined("C13.kalman(singular S in the reference)"); break
            else:
                f0, g0, A_, B_, C_, D_ = nls_ref(P_nl, xe, un, float(tval))
                xm = f0
                Pm = A_ @ Pe @ A_.T + npd(Qe)
                S = C_ @ Pm @ C_.T + npd(Re)
                K = Pm @ C_.T @ np.linalg.inv(S)
                xr = xm + K @ (yn - nls_ref(P_nl, xm, un, float(tval))[1])
                Pr = refmath.sym((np.eye(n) - K @ C_) @ Pm)
                info = {"S": S, "Pm": Pm}
            condS = np.linalg.cond(info["S"])
            slack = 1e2 * 2.3e-16 * TS * condS * np.abs(info["Pm"]).max()
            amp = 1.0
            if filt == "UKF" and k is not None and k < 0:
                amp = 1 + abs(k / (n + k)) * 10
            tol = TOL * max(1.0, condS) * amp
            if tol > 1e-3:
                out.declined("C13.kalman(cond)")
            else:
                ex = np.abs(npd(xn) - xr).max() / (1 + np.abs(xr).max() + np.sqrt(np.abs(Pe).max()))
                # absolute round-off of forming a covariance from points / from P- - K S K^T: eps * (|P-| + |x| sqrt|P-|); it
                # dominates when an accurate sensor makes the posterior orders of magnitude smaller than the prediction
                pm_ = np.abs(info["Pm"]).max()
                rnd_ = pm_ + (np.abs(xr).max() + np.abs(xe).max()) * np.sqrt(pm_)
                eP = np.abs(npd(Pn) - Pr).max() / (np.abs(Pr).max() + 1e3 * rnd_ * 2.3e-16 / TOL * TS + 1e-300)
                pri = "correlated" if offd else "diagonal"
                if not (ex <= tol):
                    raise Violation("C13.mean", "%s step %d (%s prior, n=%d q=%d%s): posterior mean deviates from the "
                                    "Kalman predict-then-update by %.3e relative (tolerance %.1e)" %
                                    (filt, i, pri, n, q, "" if filt != "UKF" else ", k=%s" % k, ex, tol), i,
                                    "mean:%s:%s" % (filt, c["plant"]))
                if not (eP <= tol * 10):
                    raise Violation("C13.covariance", "%s step %d (%s prior, n=%d q=%d%s): posterior covariance deviates "
                                    "from the Kalman posterior by %.3e relative (tolerance %.1e)" %
                                    (filt, i, pri, n, q, "" if filt != "UKF" else ", k=%s" % k, eP, tol * 10), i,
                                    "cov:%s:%s" % (filt, c["plant"]))
            kk = (3 - n) if k is None else k
            _psd(Pn, "%s step %d" % (filt, i), i, "psd:" + filt, need=(filt == "EKF" or kk >= 0), slack=slack)
        else:
            _psd(Pn, "PF step %d" % i, i, "psd:PF", need=True, eps=1.2e-7 if dt == torch.float32 else 2.3e-16)
            # posterior mean of the documented particle model, linear plant
            Mt0 = mats(0)
            Pp = n * Pe
            S = Mt0["C"] @ Pp @ Mt0["C"].T + npd(Re)
            K = Pp @ Mt0["C"].T @ np.linalg.inv(S)
            xpost = xe + K @ (yn - (Mt0["C"] @ xe + Mt0["D"] @ un + Mt0["c2"]))
            Ppost = Pp - K @ S @ K.T
            mean = Mt0["A"] @ xpost + Mt0["B"] @ un + Mt0["c1"]
            # ESS fraction from an independent sample
            Ms = 20000
            L = np.linalg.cholesky(Pp)
            Z = rng.randn(s, ("ess", i), (Ms, n)).numpy() @ L.T + xe
            res = yn - (Z @ Mt0["C"].T + Mt0["D"] @ un + Mt0["c2"])
            ll = -0.5 * np.einsum("ij,jk,ik->i", res, np.linalg.inv(npd(Re)), res)
            wt = np.exp(ll - ll.max())
            ess = wt.sum() ** 2 / (wt ** 2).sum() / Ms
            N = c["particles"]
            Ainv_ok = np.linalg.cond(Mt0["A"]) < 1e4
            if ess < 0.05 and Ainv_ok and np.isfinite(npd(xn)).all():
                # Degenerate weights: the Monte-Carlo band is meaningless, but importance weighting still has to pull
                # the resampled set towards the measurement.  The mean pre-image of the estimate, m = A^-1(x - Bu - c1),
                # must explain y about as well as the best few of an independent prior sample do: its Mahalanobis
                # distance to y may not exceed the max(25%, 10*ESS + 50/N)-quantile of that sample's distances (d(mean) <= weighted
                # mean of the particles' distances by convexity, and with ESS < 5% that weight sits on the lowest few percent; a
                # particle picked regardless of its weight lands above the 25% quantile three times out of four).
                Rinv = np.linalg.inv(npd(Re))
                msel = np.linalg.solve(Mt0["A"], npd(xn) - Mt0["B"] @ un - Mt0["c1"])
                rm = yn - (Mt0["C"] @ msel + Mt0["D"] @ un + Mt0["c2"])
                d1 = float(rm @ Rinv @ rm)
                dz = np.einsum("ij,jk,ik->i", res, Rinv, res)
                level = min(0.6, max(0.25, 10 * ess + 50.0 / N + 50.0 / Ms))
                thr = float(np.quantile(dz, level))
                out.probe("pf:low-ess-judged")
                if not (d1 <= thr * (1 + 1e-6) + 1e-9):
                    raise Violation("C13.pf", "PF step %d with degenerate weights (ESS %.4f, N=%d): the estimate's pre-image is %.1f "
                                    "(squared Mahalanobis) from the measurement, the best %.1f%% of an independent prior sample are "
                                    "within %.1f: the importance weights did not select the particles that explain y" %
                                    (i, ess, N, d1, 100 * level, thr), i, "pf:low-ess")
            elif ess < 0.05:
                out.declined("C13.pf(ess<5%)")
            else:
                out.probe("pf:judged")
                var = 2 * np.diag(Mt0["A"] @ Ppost @ Mt0["A"].T) / (c["particles"] * ess) + 1e-300
                z = np.abs(npd(xn) - mean) / np.sqrt(var)
                # self-normalised importance sampling is heavy-tailed at small ESS: the normal band is widened there
                # (6.1 sigma at ESS 0.06 was met once in 60 000 thorough runs on the unchanged tree)
                zmax = 6.0 if ess >= 0.2 else 10.0
                if not (z.max() <= zmax):
                    raise Violation("C13.pf", "PF step %d: estimate is %.1f sigma from the posterior mean of the particle "
                                    "model (N=%d, ESS %.2f)" % (i, z.max(), c["particles"], ess), i, "pf:mean")
        if c.get("inplace_feedback"):
            # the caller's estimate and covariance live in buffers that are overwritten with the posterior
            with torch.no_grad():
                x_est.copy_(xn.detach()); P.copy_(Pn.detach())
            boundary.refresh(x_est, P)
            out.probe("feedback-in-place-buffers")
        else:
            x_est, P = xn.detach(), Pn.detach()
        if not torch.isfinite(x_est).all() or x_est.abs().max() > 1e6:
            break
        Ps = 0.5 * (P + P.mT)
        if torch.linalg.eigvalsh(Ps)[0] <= 1e-10 * Ps.abs().max():
            out.declined("C13.feedback(prior not PD)")      # cannot be a prior for the next step
            break
        if c.get("inplace_feedback"):
            with torch.no_grad():
                P.copy_(Ps)
            boundary.refresh(P)
        else:
            P = Ps      # a valid prior is symmetric: each step is judged on its own round-off
        out.sigs.add("%s|%s|n%d|q%d|s%d|%s|%s" % (filt, c["plant"] + ("tv" if c["tv"] else ""), n, q, min(i // 5, 5),
                                               "corr" if offd else "diag", c["kmode"] if filt == "UKF" else ""))
    out.nontrivial = len(plan["ops"]) > 1 or not c["diagP"]


def describe(prop):
    return {
        "rule": "one run = one plant (linear time-invariant or time-indexed as an NLS subclass, or a smooth nonlinear "
                "one for EKF), dims 1-6, SPD Q, R, P0 with scales 1e-3..1e3 and eigenvalue spread up to 1e4, diagonal or "
                "full P0, UKF k from {default, 0, 1, 3, 0.37, -0.5, -(n-0.25)}, PF with 2e3..4e4 particles; the plant "
                "moves with seeded noise, is observed after the transition, and the filter's own (x,P) is fed back for "
                "1-50 steps (PF 1-4); distinct = distinct (filter, plant kind, n, q, step bucket, prior diagonal / "
                "correlated, k mode); non-trivial = more than one step or a non-diagonal prior",
        "fault_kinds": [],
        "real": ["pypose.module.EKF", "pypose.module.UKF", "pypose.module.PF", "pypose.module.NLS (linearisation)",
                 "pypose.bmv / bvv"],
        "stub": ["plants (LinNLS, GenNLS) and the seeded noise source"],
        "assumptions": ["float64; comparison tolerance 1e-9 * cond(S) (x10 for covariances; widened for negative UKF "
                        "centre weights), abstains above 1e-3", "PF: particle model 'X_i ~ N(x, nP), weights from the "
                        "Gaussian likelihood of y at g(X_i,u), estimate = mean of resampled f(X_i,u)'; 6-sigma band with "
                        "sigma^2 = 2 diag(A P_post A^T)/(N * ESS fraction); abstains when ESS < 5%",
                        "no fault kind exists on this surface besides the noise itself (reported as zero)"],
    }
