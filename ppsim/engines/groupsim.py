"""groupsim -- C03: long mixed operation histories on one batched element against a float64 matrix
reference model.  No fault kind exists on this surface (reported as such); what simulation adds is the
`histories` part of the quantifier.

Real code: SO3/SE3/RxSO3/Sim3 @, *, Inv, Act (3- and 4-vectors), add_, +, Retr, matrix, rotation /
translation / scale, identity_like / identity_*.   Stub: none.
"""
import os
import numpy as np
import torch
import pypose as pp

from ..core import rng, refmath
from ..core.outcome import Violation
from .optmodels import LT, lie

NAME = "groupsim"
SIM_UNIT = "group operations"
BUDGET = {"quick": {"runs": 1400, "wall": 70}, "thorough": {"runs": 12000, "wall": 2400}}
ISOLATE = "chunk"       # every chunk of runs in a forked child of a pristine worker: what a run sees of the process is a
                        # deterministic function of the runs before it in the same chunk (see runner.run_history_iso)
SHRINK_LISTS = ("ops",)
PROBES = {"C03": ["history>=1000", "history>=10000", "act4:w=0", "float32", "batched", "scale-steered",
                  "assoc", "act-compose", "identity", "inverse", "reinit-from-identity", "logscale>8", "identity_-through-view:[::2]", "identity_-through-view:[:, 0]", "operand:expanded", "operand:broadcast", "operand:non-contiguous", "operand:deepcopied", "translation-rebased", "operand:exact-half-turn", "act-operator-forms", "act:large-cloud", "large-batch-products", "act:stacked-point-sets", "act:origin"]}
TS = float(os.environ.get("PPSIM_TOLSCALE", "1"))
UPDATES = ("mulr", "mull", "inv", "add_", "plus", "retr", "idl", "idr", "reinit", "ident_view")
PROBE_OPS = ("act3", "act4", "assoc", "actcomp", "access", "invlaw", "actop")


def generate(seed, tier, prop="C03"):
    r = rng.stream(seed, "config")
    fam = r.choice(refmath.GROUPS)
    x = r.random()
    if tier == "thorough":
        n = 10000 if x < 0.04 else 2000 if x < 0.15 else r.randint(5, 400)
    else:
        n = 4000 if x < 0.012 else 1500 if x < 0.03 else r.randint(5, 300)
    cfg = {"fam": fam, "dtype": r.choice(["f64", "f64", "f32"]), "bshape": r.choice([[], [1], [3], [2, 2]]),
           "sigma": r.choice([0.005, 0.05, 0.3, 1.0, 2.5]), "logs_bound": r.choice([3.0, 3.0, 8.0, 16.0]),
           "sdrift": r.choice([0, 0, 0, -1, 1])}
    ro = rng.stream(seed, "ops")
    wu = {k: ro.choice([0, 1, 2, 4]) for k in UPDATES}
    wu["reinit"] = min(wu["reinit"], 1) if n <= 400 else 0
    wu["ident_view"] = min(wu["ident_view"], 1) if (n <= 400 and fam == "SO3") else 0   # identity_ exists for SO3 only
    if sum(wu.values()) == 0:
        wu["mulr"] = 1
    if False:
        pass
    pprobe = ro.choice([0.05, 0.15, 0.4]) if n <= 400 else 0.02
    un = [k for k in UPDATES if wu[k] > 0]; uw = [wu[k] for k in un]
    ops = []
    for i in range(n):
        if ro.random() < pprobe:
            ops.append([i, ro.choice(PROBE_OPS)])
        else:
            ops.append([i, ro.choices(un, uw)[0]])
    return {"engine": NAME, "seed": seed, "config": cfg, "ops": ops}


def brief(plan):
    ops = [o[1] for o in plan["ops"]]
    return {"config": plan["config"], "n_ops": len(ops), "ops_head": ops[:30]}


def simplify(plan):
    c = plan["config"]
    cands = []
    for k, v in (("bshape", []), ("dtype", "f64"), ("sigma", 0.3)):
        if c[k] != v:
            cands.append({**plan, "config": dict(c, **{k: v})})
    return cands


# ---------------------------------------------------------------------------------------------
# vectorised reference helpers (numpy, float64); every element is embedded in 4x4

def _q2R(q):
    q = q / np.linalg.norm(q, axis=-1, keepdims=True)
    x, y, z, w = q[..., 0], q[..., 1], q[..., 2], q[..., 3]
    R = np.empty(q.shape[:-1] + (3, 3))
    R[..., 0, 0] = 1 - 2 * (y * y + z * z); R[..., 0, 1] = 2 * (x * y - z * w); R[..., 0, 2] = 2 * (x * z + y * w)
    R[..., 1, 0] = 2 * (x * y + z * w); R[..., 1, 1] = 1 - 2 * (x * x + z * z); R[..., 1, 2] = 2 * (y * z - x * w)
    R[..., 2, 0] = 2 * (x * z - y * w); R[..., 2, 1] = 2 * (y * z + x * w); R[..., 2, 2] = 1 - 2 * (x * x + y * y)
    return R


def to_mat(fam, X):
    """X: numpy [..., d] storage values -> [..., 4, 4]."""
    M = np.zeros(X.shape[:-1] + (4, 4)); M[..., 3, 3] = 1
    if fam == "SO3":
        M[..., :3, :3] = _q2R(X[..., 0:4])
    elif fam == "SE3":
        M[..., :3, :3] = _q2R(X[..., 3:7]); M[..., :3, 3] = X[..., 0:3]
    elif fam == "RxSO3":
        M[..., :3, :3] = X[..., 4, None, None] * _q2R(X[..., 0:4])
    else:
        M[..., :3, :3] = X[..., 7, None, None] * _q2R(X[..., 3:7]); M[..., :3, 3] = X[..., 0:3]
    return M


def gen_mat(fam, a):
    """Generator matrices [..., 4, 4] of algebra elements a[..., >=manifold dim]."""
    G = np.zeros(a.shape[:-1] + (4, 4))
    def hat(phi):
        H = np.zeros(phi.shape[:-1] + (3, 3))
        H[..., 0, 1] = -phi[..., 2]; H[..., 0, 2] = phi[..., 1]; H[..., 1, 0] = phi[..., 2]
        H[..., 1, 2] = -phi[..., 0]; H[..., 2, 0] = -phi[..., 1]; H[..., 2, 1] = phi[..., 0]
        return H
    if fam == "SO3":
        G[..., :3, :3] = hat(a[..., 0:3])
    elif fam == "SE3":
        G[..., :3, :3] = hat(a[..., 3:6]); G[..., :3, 3] = a[..., 0:3]
    elif fam == "RxSO3":
        G[..., :3, :3] = hat(a[..., 0:3]) + a[..., 3, None, None] * np.eye(3)
    else:
        G[..., :3, :3] = hat(a[..., 3:6]) + a[..., 6, None, None] * np.eye(3); G[..., :3, 3] = a[..., 0:3]
    return G


def expm_b(G):
    flat = G.reshape(-1, 4, 4)
    return np.stack([refmath.expm(g) for g in flat]).reshape(G.shape)


def quat_of(fam, X):
    return X[..., 3:7] if fam in ("SE3", "Sim3") else X[..., 0:4]


def scale_of(fam, X):
    return X[..., 7] if fam == "Sim3" else X[..., 4] if fam == "RxSO3" else np.ones(X.shape[:-1])


def _merge_reset(Mref, before, after):
    """Reference trajectory after an in-place reset of some batch items: items that were reset follow `after`."""
    Mref = np.array(Mref, copy=True)
    changed = np.abs(after - before).reshape(after.shape[:-2] + (-1,)).max(-1) > 0 if after.ndim > 2 else np.array(True)
    if after.ndim == 2:
        return after.copy()
    Mref[changed] = after[changed]
    return Mref


def execute(plan, prop, out, tr):
    c, s = plan["config"], plan["seed"]
    fam = c["fam"]
    dtype = torch.float64 if c["dtype"] == "f64" else torch.float32
    eps = 2.3e-16 if dtype == torch.float64 else 1.2e-7
    bs = tuple(c["bshape"])
    md, gd = refmath.ADIM[fam], refmath.GDIM[fam]
    has_s, has_t = fam in ("RxSO3", "Sim3"), fam in ("SE3", "Sim3")
    n_total = len(plan["ops"])
    if n_total >= 1000:
        out.probe("history>=1000")
    if n_total >= 10000:
        out.probe("history>=10000")
    if dtype == torch.float32:
        out.probe("float32")
    if bs:
        out.probe("batched")
    tr.ev("plan", c, n_total)
    npd = lambda t: (t.tensor() if hasattr(t, "ltype") else t).detach().double().numpy()

    def alg(i, tag, sc=None):
        a = rng.randn(s, ("g", i, tag), bs + (md,), torch.float64, c["sigma"] if sc is None else sc)
        z = rng.H(s, "zero", i, tag) % 23
        if z == 0:
            a = a * 0.0                         # the exact zero element (Exp at the origin, identity operand)
        elif z == 1:
            a[..., -3:] = 0.0                   # exact zero rotation (SO3/SE3) or zero rotation tail
        if has_s:
            a[..., -1] *= 0.3
        return a

    def grp(i, tag):
        return lie(alg(i, tag).to(dtype), fam, False).Exp()

    X = grp(-1, "x0")
    Mref = to_mat(fam, npd(X))          # global reference trajectory, advanced in float64 matrices only
    C_LOC, C_GLOB = 150.0 * TS, 150.0 * TS
    n_upd = 0
    grams = ["^", "^"]

    def local(res, want, what, i, scale, drift=False):
        """matrix(result) computed from the result's storage values vs the reference operation."""
        got = to_mat(fam, npd(res))
        err = np.abs(got - want).max()
        # pypose rotates translations with the un-renormalised quaternion, the reference with the normalised one: the
        # accumulated norm drift (~ eps per update) enters every operation a little, Inv fully
        scale = scale * (1 + (0.1 if drift else 0.01) * n_upd)
        if not err <= C_LOC * eps * max(scale, 1.0):
            raise Violation("C03.homomorphism", "op #%d %s: matrix of the result differs from the reference matrix "
                            "operation by %.3e (allowed %.3e; %s %s)" % (i, what, err, C_LOC * eps * max(scale, 1.0), fam,
                                                                        c["dtype"]), i, "hom:" + what)

    for i, op in plan["ops"]:
        Xn = npd(X); MX = to_mat(fam, Xn)
        nX = np.abs(MX).max()
        logs = np.log(scale_of(fam, Xn)) if has_s else np.zeros(1)
        steer = has_s and np.abs(logs).max() > c.get("logs_bound", 3.0)
        if has_s and np.abs(logs).max() > 8:
            out.probe("logscale>8")
        if op in UPDATES and has_t and np.abs(Xn[..., 0:3]).max() > (1e4 if dtype == torch.float32 else 1e9):
            op = "reinit"; out.probe("translation-rebased")      # scales up to e^16 make translations grow geometrically
        if op in UPDATES:
            a = alg(i, "a")
            if has_s and c.get("sdrift") and not steer:
                # a shrinking / growing similarity: the log-scale drifts one way until the bound steers it back
                a[..., -1] = float(c["sdrift"]) * (a[..., -1].abs() + 0.4)
            if steer:
                a[..., -1] = torch.tensor(-np.sign(logs) * np.abs(a[..., -1].numpy()))
                out.probe("scale-steered")
            if op in ("mulr", "mull"):
                Y = lie(a.to(dtype), fam, False).Exp()
                if rng.H(s, "halfturn", i) % 17 == 0:
                    # an exact half turn about a coordinate axis (scalar part exactly 0), unit scale
                    raw = Y.tensor().clone()
                    qs = 3 if has_t else 0
                    raw[..., qs:qs + 4] = 0.0
                    raw[..., qs + (rng.H(s, "axis", i) % 3)] = 1.0
                    if has_s:
                        raw[..., -1] = 1.0
                    Y = pp.LieTensor(raw, ltype=X.ltype)
                    out.probe("operand:exact-half-turn")
                lay = i % 5
                if bs and lay == 1:
                    # one fresh operand broadcast against the whole batch (stride-0 expand)
                    Y = pp.LieTensor(lie(a.reshape(-1, md)[0].to(dtype), fam, False).Exp().tensor().expand(bs + (gd,)), ltype=X.ltype)
                    out.probe("operand:expanded")
                elif bs and lay == 2:
                    # lshape () operand against a batched element (broadcasting of the batch dimensions)
                    Y = lie(a.reshape(-1, md)[0].to(dtype), fam, False).Exp()
                    out.probe("operand:broadcast")
                elif lay == 4:
                    import copy as _copy
                    if i % 3 == 0:
                        import pickle as _pickle
                        Y = _pickle.loads(_pickle.dumps(Y))
                    else:
                        Y = _copy.deepcopy(Y)   # an element restored from a snapshot (deepcopy / pickle / torch.load)
                    if i % 2:
                        X = _copy.deepcopy(X)
                    out.probe("operand:deepcopied")
                elif lay == 3:
                    # operand living in every second slot of a larger buffer (non-contiguous storage)
                    big = torch.zeros(bs + (2 * gd,), dtype=dtype)
                    big[..., ::2] = Y.tensor()
                    Y = pp.LieTensor(big[..., ::2], ltype=X.ltype)
                    out.probe("operand:non-contiguous")
                MY = np.broadcast_to(to_mat(fam, npd(Y)), MX.shape).copy()
                Xb, Yb = X.clone(), Y.clone()
                if op == "mulr":
                    R = (X @ Y) if i % 2 else (X * Y); want = MX @ MY; Mref = Mref @ MY
                else:
                    R = (Y @ X) if i % 2 else (Y * X); want = MY @ MX; Mref = MY @ Mref
                local(R, want, op, i, nX * np.abs(MY).max())
                if not (torch.equal(X, Xb) and torch.equal(Y, Yb)):
                    raise Violation("C03.mutation", "op #%d %s modified an operand" % (i, op), i, "mutation")
                X = R
            elif op == "inv":
                R = X.Inv()
                if not np.isfinite(MX).all():
                    raise Violation("C03.validity", "op #%d: the element handed to Inv is not finite" % i, i, "validity:finite")
                want = np.linalg.inv(MX)
                local(R, want, op, i, np.abs(want).max() * np.linalg.cond(MX.reshape(-1, 4, 4)).max(), drift=True)
                Mref = np.linalg.inv(Mref)
                X = R
            elif op in ("add_", "plus", "retr"):
                pad = gd if i % 3 == 0 else md      # components beyond the manifold dimension are ignored
                av = torch.zeros(bs + (pad,), dtype=torch.float64); av[..., :md] = a
                if pad > md:
                    av[..., md:] = 7.0
                # C03 speaks of validity of retractions and of the product law; how accurately Exp(a) matches the matrix
                # exponential is C01/C05.  The retraction is therefore checked as the product Exp(a) @ X with pypose's own
                # Exp(a) taken as a fresh operand whose matrix is read from its storage values.
                E = to_mat(fam, npd(lie(a.to(dtype), fam, False).Exp()))
                want = E @ MX; Mref = E @ Mref
                if op == "add_":
                    R = X; R.add_(av.to(dtype))         # in place on the element itself (objects are re-used across ops)
                elif op == "plus":
                    Xb = X.clone(); R = X + av.to(dtype)
                    if not torch.equal(X, Xb):
                        raise Violation("C03.mutation", "op #%d: X + a modified X" % i, i, "mutation")
                else:
                    R = X.Retr(lie(a.to(dtype), fam, False))
                # the algebra element is rounded to the run's dtype before Exp: account for it in float32
                local(R, want, op, i, nX * np.abs(E).max() * (1 + np.abs(a.numpy()).max()))
                X = R
            elif op == "ident_view":
                # identity_() through a view of the batch (every second item, a column of a 2-D batch, or the whole):
                # the selected items become the identity in place, the others keep their values
                R = X
                want = MX.copy()
                if len(bs) == 0:
                    R.identity_(); want[...] = np.eye(4); sel = "all"
                elif len(bs) == 1:
                    R[::2].identity_(); want[::2] = np.eye(4); sel = "[::2]"
                else:
                    R[:, 0].identity_(); want[:, 0] = np.eye(4); sel = "[:, 0]"
                local(R, want, op, i, nX)
                Mref = _merge_reset(Mref, MX, want)
                X = R
                out.probe("identity_-through-view:" + sel)
            elif op == "reinit":
                # start again from a (batched) identity constructor and move it in place: every item of the batch
                # must be an independent element
                I0 = getattr(pp, "identity_" + fam)(*bs, dtype=dtype) if i % 2 else pp.identity_like(X, dtype=dtype)
                E = to_mat(fam, npd(lie(a.to(dtype), fam, False).Exp()))
                av = torch.zeros(bs + (gd,), dtype=torch.float64); av[..., :md] = a
                I0.add_(av.to(dtype))
                local(I0, E, op, i, np.abs(E).max())
                Mref = E.copy()
                R = I0
                X = R
                out.probe("reinit-from-identity")
            else:
                # identity_like documents 'same lsize and ltype'; the dtype is an explicit argument
                I = pp.identity_like(X, dtype=dtype) if i % 2 else getattr(pp, "identity_" + fam)(*bs, dtype=dtype)
                if I.ltype != X.ltype or I.dtype != X.dtype or tuple(I.shape) != tuple(X.shape):
                    raise Violation("C03.identity", "identity constructor returned %s/%s for %s/%s" %
                                    (I.ltype, I.dtype, X.ltype, X.dtype), i, "identity:type")
                R = (I @ X) if op == "idl" else (X @ I)
                local(R, MX, op, i, nX)
                if not (np.abs(to_mat(fam, npd(I)) - np.eye(4)).max() <= 0):
                    raise Violation("C03.identity", "identity element's matrix is not the identity", i, "identity:value")
                out.probe("identity")
                X = R
            n_upd += 1
            out.sim_time += 1
            # ---- validity and drift after every update
            Xn = npd(X)
            qn = np.abs(np.linalg.norm(quat_of(fam, Xn), axis=-1) - 1).max()
            if not qn <= C_GLOB * eps * (n_upd + 10):
                raise Violation("C03.validity", "after %d updates the quaternion norm is off by %.3e (allowed %.3e)" %
                                (n_upd, qn, C_GLOB * eps * (n_upd + 10)), i, "validity:unit")
            if has_s and not (scale_of(fam, Xn) > 0).all():
                raise Violation("C03.validity", "after %d updates the scale is not positive" % n_upd, i, "validity:scale")
            if not np.isfinite(Xn).all():
                raise Violation("C03.validity", "after %d updates the element is not finite" % n_upd, i, "validity:finite")
            drift = np.abs(to_mat(fam, Xn) - Mref).max()
            kappa = max(1.0, np.linalg.cond(Mref.reshape(-1, 4, 4)).max())
            allow = C_GLOB * eps * (n_upd + 10) * max(1.0, np.abs(Mref).max()) * kappa
            if not drift <= allow:
                raise Violation("C03.drift", "after %d updates matrix(X) is %.3e away from the float64 reference trajectory "
                                "(allowed %.3e)" % (n_upd, drift, allow), i, "drift")
            if n_upd % 64 == 0 or n_total <= 400:
                tr.ev("upd", i, op, X)
        else:
            # ---- probes: laws checked at the current state, state unchanged.  pypose does not renormalise the
            # quaternion, the reference matrix of an element does: both differ by the accumulated norm drift.
            CP = C_LOC * (1 + 0.1 * n_upd)
            if op == "act3" and i % 3 == 0:
                # one transform acting on a large cloud (300 points), through a broadcast over the point axis
                p = rng.randn(s, ("g", i, "pbig"), bs + (300, 3), dtype, 2.0)
                p[..., 0, :] = 0.0          # the origin is one of the points
                Xb_ = X.unsqueeze(-2) if bs else X
                got = npd(Xb_.Act(p))
                want = np.einsum("...ij,...kj->...ki", MX[..., :3, :3], npd(p)) + MX[..., None, :3, 3]
                e = np.abs(got - want).max()
                if not e <= CP * eps * nX * (1 + np.abs(npd(p)).max()):
                    raise Violation("C03.act", "op #%d Act on a cloud of 300 3-vectors differs from matrix multiplication by %.3e" % (i, e), i, "act3:cloud")
                out.probe("act:large-cloud")
            elif op == "act3":
                p = rng.randn(s, ("g", i, "p"), bs + (3,), dtype, 2.0)
                if i % 4 == 1:
                    p.reshape(-1, 3)[0] = 0.0       # the origin (of the first batch item)
                    out.probe("act:origin")
                got = npd(X.Act(p))
                want = np.einsum("...ij,...j->...i", MX[..., :3, :3], npd(p)) + MX[..., :3, 3]
                e = np.abs(got - want).max()
                if not e <= CP * eps * nX * (1 + np.abs(npd(p)).max()):
                    raise Violation("C03.act", "op #%d Act on 3-vectors differs from matrix multiplication by %.3e" % (i, e), i, "act3")
            elif op == "act4":
                p = rng.randn(s, ("g", i, "p4"), bs + (4,), dtype, 2.0)
                if i % 2 == 0:
                    p[..., 3] = 0.0; out.probe("act4:w=0")
                got = npd(X.Act(p))
                want = np.einsum("...ij,...j->...i", MX, npd(p))
                e = np.abs(got - want).max()
                if not e <= CP * eps * nX * (1 + np.abs(npd(p)).max()):
                    raise Violation("C03.act", "op #%d Act on homogeneous 4-vectors (w=%s) differs from matrix multiplication by "
                                    "%.3e" % (i, "0" if i % 2 == 0 else "free", e), i, "act4")
            elif op == "actop":
                # the operator forms X @ p and X * p on clouds of k points (k = 3, 4 coincide with the matrix shapes)
                k_ = 3 + (i % 3)
                d_ = 3 if (i // 3) % 2 else 4
                pts = rng.randn(s, ("g", i, "cloud"), bs + (k_, d_), dtype, 2.0)
                Xb_ = X.unsqueeze(-2) if bs else X
                want = np.einsum("...ij,...kj->...ki", MX if d_ == 4 else MX[..., :3, :3], npd(pts))
                if d_ == 3:
                    want = want + MX[..., None, :3, 3]
                for nm, got in (("@", npd(Xb_ @ pts)), ("*", npd(Xb_ * pts)), ("Act", npd(Xb_.Act(pts)))):
                    if got.shape != want.shape:
                        raise Violation("C03.act", "op #%d X %s p on a cloud of %d %d-vectors returned shape %s, expected %s" %
                                        (i, nm, k_, d_, got.shape, want.shape), i, "actop:shape")
                    e = np.abs(got - want).max()
                    if not e <= CP * eps * nX * (1 + np.abs(npd(pts)).max()):
                        raise Violation("C03.act", "op #%d X %s p on a cloud of %d %d-vectors differs from matrix multiplication by "
                                        "%.3e" % (i, nm, k_, d_, e), i, "actop:" + nm)
                out.probe("act-operator-forms")
                # a stack of M point sets broadcast against the batch of transforms (leading axis added on the points only;
                # M equal to the batch size is the coincidence in which a wrong alignment still has a legal shape)
                M_ = (bs[0] if bs else 2) if (i // 2) % 2 == 0 else 3
                stk = rng.randn(s, ("g", i, "stack"), (M_,) + bs + (d_,), dtype, 2.0)
                want = np.einsum("...ij,m...j->m...i", MX if d_ == 4 else MX[..., :3, :3], npd(stk))
                if d_ == 3:
                    want = want + MX[None, ..., :3, 3]
                for nm, got in (("@", npd(X @ stk)), ("*", npd(X * stk)), ("Act", npd(X.Act(stk)))):
                    if got.shape != want.shape:
                        raise Violation("C03.act", "op #%d X %s p on a stack of %d point sets (points %s, transforms %s) returned "
                                        "shape %s, expected %s" % (i, nm, M_, tuple(stk.shape), tuple(X.shape), got.shape, want.shape), i, "actop:stack-shape")
                    e = np.abs(got - want).max()
                    if not e <= CP * eps * nX * (1 + np.abs(npd(stk)).max()):
                        raise Violation("C03.act", "op #%d X %s p on a stack of %d point sets broadcast against the transforms "
                                        "(points %s, transforms %s) differs from matrix multiplication by %.3e" %
                                        (i, nm, M_, tuple(stk.shape), tuple(X.shape), e), i, "actop:stack:" + nm)
                out.probe("act:stacked-point-sets")
            elif op == "assoc":
                Y, Z = grp(i, "y"), grp(i, "z")
                L, Rr = npd((X @ Y) @ Z), npd(X @ (Y @ Z))
                e = np.abs(to_mat(fam, L) - to_mat(fam, Rr)).max()
                sc = nX * np.abs(to_mat(fam, npd(Y))).max() * np.abs(to_mat(fam, npd(Z))).max()
                if not e <= CP * eps * sc:
                    raise Violation("C03.assoc", "op #%d (X@Y)@Z and X@(Y@Z) differ by %.3e" % (i, e), i, "assoc")
                out.probe("assoc")
            elif op == "actcomp":
                Y = grp(i, "y"); p = rng.randn(s, ("g", i, "p"), bs + (3,), dtype, 2.0)
                e = np.abs(npd((X @ Y).Act(p)) - npd(X.Act(Y.Act(p)))).max()
                sc = nX * np.abs(to_mat(fam, npd(Y))).max() * (1 + np.abs(npd(p)).max())
                if not e <= CP * eps * sc:
                    raise Violation("C03.act", "op #%d (X@Y).Act(p) and X.Act(Y.Act(p)) differ by %.3e" % (i, e), i, "actcomp")
                out.probe("act-compose")
            elif op == "access" and i % 4 == 0:
                # two large operands that both have to be materialised: mutual broadcasting (A,1) x (1,B)
                A_, B_ = 36, 34
                ya = lie(rng.randn(s, ("g", i, "ba"), (A_, 1, md), torch.float64, 0.5).to(dtype), fam, False).Exp()
                yb = lie(rng.randn(s, ("g", i, "bb"), (1, B_, md), torch.float64, 0.5).to(dtype), fam, False).Exp()
                Ma, Mb = to_mat(fam, npd(ya)), to_mat(fam, npd(yb))
                got = to_mat(fam, npd(ya @ yb))
                want = Ma @ Mb
                e = np.abs(got - want).max()
                if got.shape != want.shape or not e <= C_LOC * eps * np.abs(Ma).max() * np.abs(Mb).max():
                    raise Violation("C03.homomorphism", "op #%d product of lshape (%d,1) with (1,%d) differs from the matrix products by "
                                    "%.3e" % (i, A_, B_, e), i, "hom:big-broadcast")
                # and two non-contiguous column slices of one big buffer
                traj = lie(rng.randn(s, ("g", i, "traj"), (160, 2, md), torch.float64, 0.5).to(dtype), fam, False).Exp()
                c0, c1_ = traj[:, 0], traj[:, 1]
                got2 = to_mat(fam, npd(c0 @ c1_)); want2 = to_mat(fam, npd(c0)) @ to_mat(fam, npd(c1_))
                e2 = np.abs(got2 - want2).max()
                if not e2 <= C_LOC * eps * np.abs(want2).max() * 4:
                    raise Violation("C03.homomorphism", "op #%d product of two column slices of a (160,2) batch differs from the matrix "
                                    "products by %.3e" % (i, e2), i, "hom:column-slices")
                out.probe("large-batch-products")
            elif op == "access":
                Mp = npd(X.matrix())
                # a matrix() result belongs to the caller: asking for another element's matrix must not change it
                Mkeep = X.matrix(); Mkeep0 = Mkeep.clone()
                _other = grp(i, "other").matrix()
                if not torch.equal(Mkeep, Mkeep0):
                    raise Violation("C03.matrix", "op #%d a matrix() result changed when matrix() was called on another element" % i, i, "matrix:aliased")
                blk = MX[..., :3, :3] if Mp.shape[-1] == 3 else MX
                e = np.abs(Mp - blk).max()
                if not e <= CP * eps * nX:
                    raise Violation("C03.matrix", "op #%d matrix() differs from the documented representation by %.3e" % (i, e), i, "matrix")
                Rr = _q2R(npd(X.rotation())); tt = npd(X.translation()); ss = npd(X.scale())[..., 0]
                e2 = max(np.abs(ss[..., None, None] * Rr - Mp[..., :3, :3]).max(),
                         np.abs(tt - (Mp[..., :3, 3] if Mp.shape[-1] == 4 else 0 * tt)).max())
                if not e2 <= CP * eps * nX:
                    raise Violation("C03.matrix", "op #%d rotation()/translation()/scale() are not the blocks of matrix() (%.3e)"
                                    % (i, e2), i, "accessors")
            elif op == "invlaw":
                V = X.Inv()
                e = max(np.abs(to_mat(fam, npd(X @ V)) - np.eye(4)).max(), np.abs(to_mat(fam, npd(V @ X)) - np.eye(4)).max())
                if not e <= CP * eps * nX * np.abs(np.linalg.inv(MX)).max():
                    raise Violation("C03.inverse", "op #%d X@Inv(X) / Inv(X)@X differ from the identity by %.3e" % (i, e), i, "inverse")
                out.probe("inverse")
        out.ops += 1
        grams = [grams[1], op]
        out.sigs.add("%s|%s|%s>%s" % (fam, c["dtype"], grams[0], grams[1]))
    out.nontrivial = n_upd >= 2


def describe(prop):
    return {
        "rule": "one run = one batched element (SO3/SE3/RxSO3/Sim3, float32/float64, batch shape (), (1), (3) or (2,2)) and a "
                "seeded history of 5-300 operations (quick; 3% of runs 1500) or up to 10^4 (thorough) drawn with per-run "
                "weights from the updates {X@Y, Y@X (fresh Y), Inv, add_, +, Retr, identity@X, X@identity} and the probes "
                "{Act on 3-/4-vectors incl. w=0, associativity, action composition, matrix()/accessors, two-sided inverse}; "
                "distinct = distinct (group, dtype, previous op, op) 2-grams; non-trivial = at least two updates",
        "fault_kinds": [],
        "real": ["LieTensor @ / * / Inv / Act / add_ / + / Retr / Exp / matrix / rotation / translation / scale", "pypose.identity_like, "
                 "identity_SO3 / SE3 / RxSO3 / Sim3"],
        "stub": [],
        "assumptions": ["reference = 4x4 real matrices in float64 with an own scaling-and-squaring expm; local refinement tolerance "
                        "150*eps*|A||B| per operation, drift tolerance 150*eps*(n+10)*|M|*cond(M) after n updates",
                        "the walk steers the log-scale back when |log s| > 3 by the sign of the drawn increment; operands of products are "
                        "fresh elements (a product of X with a function of X itself, e.g. X@Inv(X), squares the norm error of any "
                        "quaternion arithmetic and is used only as a probe, not as an update); no fault kind exists on this surface"],
    }
