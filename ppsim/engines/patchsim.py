"""patchsim -- C06, fault clause: the temporary patching of PyTorch internals done by retain_ltype /
func.jacrev is undone on exit even when the wrapped function raises, at any point; plus an argument
non-mutation monitor over the API calls of the simulated workloads.

Real code: pypose.retain_ltype, pypose.func.jacrev, torch.func.jacrev / vmap / jacfwd internals,
LieTensor ops.   Stubs: the wrapped user functions and the exception injector (sys.settrace).

NOT decided here: the broadcasting / view-transparency clause of C06 (a pure input relation).
"""
import json, os, sys
import torch
import pypose as pp
import torch.autograd.forward_ad as _fa
import torch._functorch.eager_transforms as _et
import torch._functorch.vmap as _vm

from ..core import rng, env
from ..core.outcome import Violation

NAME = "patchsim"
SIM_UNIT = "line events executed inside wrapped regions"
BUDGET = {"quick": {"runs": 2200, "wall": 75}, "thorough": {"runs": 6000, "wall": 2400}}
SHRINK_LISTS = ("ops",)
ISOLATE = "run"         # every run in a forked child: the subject is process-global state
PROBES = {"C06": ["inject:pypose-frame", "inject:user-frame", "inject:torch-frame", "inject:other-frame", "user-raise",
                  "user-raise:BaseException", "nested>=2", "reused-wrapper", "reused-wrapper-inside-context", "op-raised", "op-completed-despite-fault",
                  "mode-B-fork", "enumerated-all-k", "monitor:api-call", "monitor:strided-args",
                  "foreign:ctrlsim", "foreign:imusim", "foreign:clocksim", "foreign:lqrsim", "foreign:filtersim", "foreign:optsim", "boundary-calls", "boundary-recorded-arguments"]}

# identity snapshot of the three patched attributes, taken at import (before any retain_ltype ran in this process)
ORIG = {"make_dual": _fa.make_dual, "_wrap_tensor_for_grad": _et._wrap_tensor_for_grad, "_add_batch_dim": _vm._add_batch_dim}
import types as _types
import torch._functorch.apis as _apis
import torch._functorch.functional_call as _fcall
import torch.autograd.functional as _afunc
_WATCHED = {"torch.autograd.forward_ad": _fa, "torch._functorch.eager_transforms": _et, "torch._functorch.vmap": _vm,
            "torch._functorch.apis": _apis, "torch._functorch.functional_call": _fcall, "torch.autograd.functional": _afunc,
            "torch.func": torch.func}
ALL_ORIG = {(mn, k): v for mn, m in _WATCHED.items() for k, v in vars(m).items()
            if isinstance(v, (_types.FunctionType, _types.BuiltinFunctionType, type))}
REPO_PP = os.path.join(os.path.realpath(env.REPO), "pypose") + os.sep
HERE = os.path.realpath(__file__)


class InjectedFault(Exception):
    pass


class InjectedBase(BaseException):
    pass


class UserAbort(BaseException):
    pass


EXC = {"RuntimeError": RuntimeError, "ValueError": ValueError, "KeyError": KeyError, "StopIteration": StopIteration,
       "KeyboardInterrupt": KeyboardInterrupt, "UserAbort": UserAbort, "GeneratorExit": GeneratorExit,
       "ZeroDivisionError": ZeroDivisionError}


# ---------------------------------------------------------------------------------------------
# user functions (stubs).  Names start with user_ so that the injector can recognise their frames.

class Bomb:
    """Raises on the j-th invocation of any user function in the current op."""
    def __init__(self):
        self.count, self.at, self.exc = 0, None, None

    def tick(self):
        self.count += 1
        if self.at is not None and self.count == self.at:
            raise EXC[self.exc]("user function failure (invocation %d)" % self.count)


BOMB = Bomb()


def user_log(X):
    BOMB.tick()
    return X.Log().tensor()


def user_log_aux(X):
    BOMB.tick()
    return X.Log().tensor(), X.Inv()


def user_act(X, p):
    BOMB.tick()
    return X.Act(p)


def user_exp(x):
    BOMB.tick()
    return x.Exp().tensor()


def user_chain(X, Y):
    BOMB.tick()
    return (X @ Y).Inv().Log().tensor()


def user_inv(X):
    BOMB.tick()
    return X.Inv()


def user_plain(x):
    BOMB.tick()
    return torch.sin(x) * x


def _region_body(fn, *a):
    """Body of an explicit `with retain_ltype():` block; the injector arms inside this frame."""
    return fn(*a)


# ---------------------------------------------------------------------------------------------
# generation

OPS = ("jacrev_log", "jacrev_act0", "jacrev_act1", "jacrev_exp", "jacrev_chain", "with_vmap", "with_jacfwd",
       "with_jacrev", "nested_vmap", "reuse", "reuse_inside", "jacrev_aux", "jacrev_chunk", "plain", "api", "api2", "foreign")
# the workloads of the other simulators, executed under the boundary monitor (core/boundary.py): (engine, property, weight)
FOREIGN = (("ctrlsim", "C20", 3), ("imusim", "C16", 2), ("clocksim", "C15", 3), ("lqrsim", "C14", 3), ("filtersim", "C13", 3),
           ("optsim", "C08", 1), ("optsim", "C07", 1))


def generate(seed, tier, prop="C06"):
    r = rng.stream(seed, "config")
    cfg = {"fam": r.choice(["SO3", "SE3", "RxSO3", "Sim3"]), "n": r.choice([1, 2, 3]),
           "enumerate": (tier == "thorough" and r.random() < 0.04)}
    ro = rng.stream(seed, "ops")
    n = ro.randint(1, 8)
    w = {k: ro.choice([0, 1, 2]) for k in OPS}
    w["plain"] = min(w["plain"], 1); w["api"] = min(w["api"], 1); w["api2"] = min(w["api2"], 1); w["foreign"] = min(w["foreign"], 1)
    names = [k for k in OPS if w[k]] or ["jacrev_log"]
    pf = ro.choice([0.3, 0.6, 0.9])
    ops = []
    for i in range(n):
        op = {"id": i, "op": ro.choices(names, [w[k] for k in names])[0]}
        if op["op"] == "nested_vmap":
            op["depth"] = ro.choice([2, 3])
        if op["op"] == "reuse":
            op["times"] = ro.randint(2, 5)
        if op["op"] == "foreign":
            e_, p_, _ = ro.choices(FOREIGN, [f_[2] for f_ in FOREIGN])[0]
            op.update({"engine": e_, "prop": p_, "seed": rng.H(seed, "foreign", i)})
        if op["op"] not in ("plain", "api", "api2", "foreign") and ro.random() < pf:
            x = ro.random()
            if x < 0.3:
                op["fault"] = {"kind": "user-raise", "exc": ro.choice(sorted(EXC)), "at": ro.choice([1, 1, 1, 2, 3])}
            elif x < 0.75:
                op["fault"] = {"kind": "inject", "mode": "A", "frac": round(ro.random(), 6),
                               "exc": ro.choice(["Exception", "Exception", "BaseException"])}
            else:
                op["fault"] = {"kind": "inject", "mode": "B", "frac": round(ro.random(), 6),
                               "exc": ro.choice(["Exception", "BaseException"])}
            if cfg["enumerate"] and op["fault"]["kind"] == "inject":
                op["fault"]["all"] = True
        ops.append(op)
    return {"engine": NAME, "seed": seed, "config": cfg, "ops": ops}


def brief(plan):
    return {"config": plan["config"], "ops": [dict(o) for o in plan["ops"]]}


def simplify(plan):
    cands = []
    c = plan["config"]
    for k, v in (("n", 1), ("fam", "SO3"), ("enumerate", False)):
        if c[k] != v:
            cands.append({**plan, "config": dict(c, **{k: v})})
    for i, o in enumerate(plan["ops"]):
        if o["op"] == "foreign":
            # shrink the other simulator's operation list: halves first, then single operations
            ids = o.get("keep")
            if ids is None:
                ids = [q["id"] for q in _foreign_plan(o)["ops"]]
            trials = []
            if len(ids) > 1:
                trials += [ids[:len(ids) // 2], ids[len(ids) // 2:]]
                trials += [ids[:j] + ids[j + 1:] for j in range(min(len(ids), 12))]
            for keep in trials:
                ops = [dict(q) for q in plan["ops"]]; ops[i]["keep"] = keep
                cands.append({**plan, "ops": ops})
        if "fault" in o:
            ops = [dict(q) for q in plan["ops"]]
            if o["fault"].get("all"):
                f = dict(o["fault"]); f.pop("all"); ops[i]["fault"] = f
            elif o["fault"].get("mode") == "B":
                ops[i]["fault"] = dict(o["fault"], mode="A")
            else:
                ops[i].pop("fault")
            cands.append({**plan, "ops": ops})
    return cands


# ---------------------------------------------------------------------------------------------
# the injector

class Injector:
    """Raises at the k-th line event inside the armed region.  The region is the dynamic extent of the wrapped
    function: every frame that descends from pypose.func.jac's wrapper_fn or from _region_body.  Mode A counts
    only lines of pypose or user-function frames, mode B lines of any frame."""
    def __init__(self, mode, k=None, exc="Exception"):
        self.mode, self.k, self.n, self.site, self.exc = mode, k, 0, None, exc
        self.fired = False

    @staticmethod
    def _is_root(code):
        return (code.co_name == "wrapper_fn" and code.co_filename.endswith(os.path.join("pypose", "func", "jac.py"))) or \
               (code.co_name == "_region_body" and os.path.realpath(code.co_filename) == HERE)

    def _inside(self, frame):
        f = frame
        depth = 0
        while f is not None and depth < 400:
            if self._is_root(f.f_code):
                return True
            f = f.f_back; depth += 1
        return False

    def _counts(self, code):
        if self.mode == "B":
            return True
        fn = code.co_filename
        if fn.startswith(REPO_PP):
            return code.co_name != "retain_ltype"
        return code.co_name.startswith("user_") and os.path.realpath(fn) == HERE

    def glob(self, frame, event, arg):
        if self.fired or event != "call":
            return None
        code = frame.f_code
        if self._is_root(code):
            return None                 # the root's own lines are the wrapper, its callees are the region
        if self._counts(code) and self._inside(frame.f_back):
            return self.local
        return None

    def local(self, frame, event, arg):
        if event == "line" and not self.fired:
            self.n += 1
            if self.k is not None and self.n == self.k:
                self.fired = True
                fn = frame.f_code.co_filename
                self.site = (fn, frame.f_lineno, frame.f_code.co_name)
                raise (InjectedBase if self.exc == "BaseException" else InjectedFault)(
                    "injected at line event %d: %s:%d" % (self.n, fn, frame.f_lineno))
        return self.local

    def run(self, thunk):
        old = sys.gettrace()
        sys.settrace(self.glob)
        try:
            return thunk()
        finally:
            sys.settrace(old)


# ---------------------------------------------------------------------------------------------

def _patch_state():
    """Names of PyTorch internals that are not the objects recorded at import: the three pypose documents, and any
    other function of the watched torch modules (a patch of a fourth internal is patching of PyTorch internals too)."""
    cur = {"make_dual": _fa.make_dual, "_wrap_tensor_for_grad": _et._wrap_tensor_for_grad,
           "_add_batch_dim": _vm._add_batch_dim}
    left = [k for k in sorted(ORIG) if cur[k] is not ORIG[k]]
    for (mn, k), v in ALL_ORIG.items():
        if k not in ORIG and vars(_WATCHED[mn]).get(k) is not v:
            left.append("%s.%s" % (mn, k))
    return sorted(left)


def _restore_all():
    _fa.make_dual, _et._wrap_tensor_for_grad, _vm._add_batch_dim = ORIG["make_dual"], ORIG["_wrap_tensor_for_grad"], ORIG["_add_batch_dim"]
    for (mn, k), v in ALL_ORIG.items():
        if vars(_WATCHED[mn]).get(k) is not v:
            setattr(_WATCHED[mn], k, v)


def _health():
    x = torch.linspace(0.1, 0.9, 3, dtype=torch.float64)
    v = torch.func.vmap(torch.sin)(x)
    if type(v) is not torch.Tensor or not torch.allclose(v, torch.sin(x)):
        return "plain torch.func.vmap no longer returns the plain result (%s)" % type(v).__name__
    J = torch.func.jacrev(torch.sin)(x)
    if type(J) is not torch.Tensor or not torch.allclose(J, torch.diag(torch.cos(x))):
        return "plain torch.func.jacrev no longer returns the right Jacobian"
    return None


_PRE = False


def preload():
    """Called in the parent of the per-run forks: trigger torch.func's lazy imports with plain tensors only (no
    pypose patching is involved, so nothing the property speaks of can leak into the parent)."""
    global _PRE
    if _PRE:
        return
    x = torch.linspace(0.1, 0.9, 3, dtype=torch.float64)
    torch.func.vmap(torch.sin)(x); torch.func.jacrev(torch.sin)(x); torch.func.jacfwd(torch.sin)(x)
    torch.func.jacrev(lambda a, b: (a * b).sin(), argnums=(0, 1))(x, x)
    X = pp.randn_SE3(2, dtype=torch.float64)
    X.Log(); X.Inv(); (X @ X).Act(torch.ones(2, 3, dtype=torch.float64)); X.Log().Exp(); X.matrix()
    torch.autograd.functional.jacobian(lambda t: pp.SE3(t).Log().tensor(), X.tensor())
    _PRE = True


_WARM = False


def _warm():
    """Lazy imports inside torch.func cost millions of line events on first use: do them before arming."""
    global _WARM
    if _WARM:
        return
    X = pp.randn_SE3(2, dtype=torch.float64)
    pp.func.jacrev(user_log)(X)
    for tf in (torch.func.vmap(user_inv), torch.func.jacfwd(user_log), torch.func.jacrev(user_log)):
        try:
            with pp.retain_ltype():
                tf(X)
        except Exception as e:
            # e.g. forward-mode AD is not implemented for the custom Functions: a natural failure inside the region
            left = _patch_state()
            if left:
                _fa.make_dual, _et._wrap_tensor_for_grad, _vm._add_batch_dim = ORIG["make_dual"], ORIG["_wrap_tensor_for_grad"], ORIG["_add_batch_dim"]
                raise Violation("C06.patches", "warm-up: %s raised inside `with retain_ltype()` and PyTorch internals stayed "
                                "patched: %s" % (type(e).__name__, left), 0, "patches:natural")
    torch.func.vmap(torch.sin)(torch.ones(2)); torch.func.jacrev(torch.sin)(torch.ones(2))
    _WARM = True


def _make_thunk(o, fam, n, seed, reuse_cache):
    dt = torch.float64
    from .optmodels import rand_grp, rand_alg
    X = rand_grp(seed, ("X", o["id"]), (n,), fam, dt)
    Y = rand_grp(seed, ("Y", o["id"]), (n,), fam, dt)
    x = rand_alg(seed, ("x", o["id"]), (n,), fam, dt)
    p = rng.randn(seed, ("p", o["id"]), (n, 3), dt)
    args = [X, Y, x, p]
    op = o["op"]
    if op == "jacrev_log":
        return lambda: pp.func.jacrev(user_log)(X), args
    if op == "jacrev_act0":
        return lambda: pp.func.jacrev(user_act, argnums=0)(X, p), args
    if op == "jacrev_act1":
        return lambda: pp.func.jacrev(user_act, argnums=1)(X, p), args
    if op == "jacrev_exp":
        return lambda: pp.func.jacrev(user_exp)(x), args
    if op == "jacrev_aux":
        return lambda: pp.func.jacrev(user_log_aux, has_aux=True)(X), args
    if op == "jacrev_chunk":
        return lambda: pp.func.jacrev(user_log, chunk_size=2)(X), args
    if op == "jacrev_chain":
        return lambda: pp.func.jacrev(user_chain, argnums=(0, 1))(X, Y), args
    if op == "with_vmap":
        def t():
            with pp.retain_ltype():
                return _region_body(torch.func.vmap(user_inv), X)
        return t, args
    if op == "with_jacfwd":
        def t():
            with pp.retain_ltype():
                return _region_body(torch.func.jacfwd(user_log), X)
        return t, args
    if op == "with_jacrev":
        def t():
            with pp.retain_ltype():
                return _region_body(torch.func.jacrev(user_log), X)
        return t, args
    if op == "nested_vmap":
        depth = o.get("depth", 2)
        def t():
            def rec(d):
                with pp.retain_ltype():
                    if d <= 1:
                        return _region_body(torch.func.vmap(user_inv), X)
                    return rec(d - 1)
            return rec(depth)
        return t, args
    if op == "reuse":
        jf = reuse_cache.setdefault("jf", pp.func.jacrev(user_log))
        times = o.get("times", 2)
        def t():
            r_ = None
            for _ in range(times):
                r_ = jf(X)
            return r_
        return t, args
    if op == "reuse_inside":
        # the (possibly first) call of the shared jacobian function happens inside an active retain_ltype context
        jf = reuse_cache.setdefault("jf", pp.func.jacrev(user_log))
        def t():
            with pp.retain_ltype():
                return _region_body(jf, X)
        return t, args
    if op == "plain":
        return lambda: torch.func.jacrev(user_plain)(p), args
    raise ValueError(op)


_BASES = []


def _lay(t, strided):
    """The same values, optionally living in every second slot of a larger zero buffer (a non-contiguous view)."""
    if not strided or t.ndim == 0:
        return t
    is_lie = hasattr(t, "ltype")
    raw = t.tensor() if is_lie else t
    base = torch.zeros(raw.shape[:-1] + (2 * raw.shape[-1],), dtype=raw.dtype)
    base[..., ::2] = raw
    _BASES.append(base)
    v = base[..., ::2]
    return pp.LieTensor(v, ltype=t.ltype) if is_lie else v


def _gaps_clean(name, i):
    for b in _BASES:
        if float(b[..., 1::2].abs().max()) != 0.0:
            raise Violation("C06.mutation", "public function '%s' wrote outside the view it was given (into the gaps of a "
                            "strided argument)" % name, i, "mutation:gap:" + name)


def _api_monitor(seed, i, fam, n, out):
    """Argument non-mutation monitor over LieTensor API calls made by the simulated workloads."""
    from .optmodels import rand_grp, rand_alg
    dt = torch.float64
    strided = (rng.H(seed, "layout", i) % 2 == 1)
    del _BASES[:]
    if strided:
        out.probe("monitor:strided-args")
    L = lambda t: _lay(t, strided)
    X = L(rand_grp(seed, ("mX", i), (n,), fam, dt)); Y = L(rand_grp(seed, ("mY", i), (n,), fam, dt))
    a = L(rand_alg(seed, ("ma", i), (n,), fam, dt)); p = L(rng.randn(seed, ("mp", i), (n, 3), dt))
    p4 = L(rng.randn(seed, ("mp4", i), (n, 4), dt))
    Z = L(rand_grp(seed, ("mZ", i), (5,), fam, dt))
    # special values: exact zeros in an algebra element (first item all zero; last component -- the log-scale of
    # rxso3 / sim3 -- zero in every item), the identity as an operand, the origin among the points
    a0r = a.tensor().clone(); a0r[0] = 0.0; a0r[..., -1] = 0.0
    a0 = L(pp.LieTensor(a0r, ltype=a.ltype))
    Id = L(pp.LieTensor(pp.identity_like(X).tensor().to(dt), ltype=X.ltype))
    pz = p.clone() if not strided else L(p.clone()); pz[0] = 0.0
    calls = [("Exp:zeros", lambda: a0.Exp(), [a0]), ("Retr:zeros", lambda: X.Retr(a0), [X, a0]), ("add:zeros", lambda: X + a0.tensor(), [X, a0]),
             ("Log:identity", lambda: Id.Log(), [Id]), ("matmul:identity", lambda: Id @ X, [Id, X]), ("Act3:origin", lambda: X.Act(pz), [X, pz]),
             ("Jinvp:zeros", lambda: X.Jinvp(a0), [X, a0]), ("Adj:zeros", lambda: X.Adj(a0), [X, a0]),
             ("add:alpha", lambda: X.add(a.tensor(), alpha=0.5), [X, a]), ("pp.add:alpha", lambda: pp.add(X, a.tensor(), alpha=2), [X, a]),
             ("pp.add:alpha:algebra", lambda: pp.add(a, a0.tensor(), alpha=3), [a, a0]), ("pp.mul", lambda: pp.mul(X, Y), [X, Y]),
             ("Exp", lambda: a.Exp(), [a]), ("Log", lambda: X.Log(), [X]), ("Inv", lambda: X.Inv(), [X]),
             ("matmul", lambda: X @ Y, [X, Y]), ("mul", lambda: X * Y, [X, Y]), ("Act3", lambda: X.Act(p), [X, p]),
             ("Act4", lambda: X.Act(p4), [X, p4]), ("Adj", lambda: X.Adj(a), [X, a]), ("AdjT", lambda: X.AdjT(a), [X, a]),
             ("Jinvp", lambda: X.Jinvp(a), [X, a]), ("Retr", lambda: X.Retr(a), [X, a]), ("add", lambda: X + a.tensor(), [X, a]),
             ("matrix", lambda: X.matrix(), [X]), ("rotation", lambda: X.rotation(), [X]), ("translation", lambda: X.translation(), [X]),
             ("scale", lambda: X.scale(), [X]), ("cumprod", lambda: pp.cumprod(Z, 0), [Z]), ("cummul", lambda: pp.cummul(Z, 0), [Z]),
             ("cumops", lambda: pp.cumops(Z, 0, lambda u, v: u @ v), [Z]), ("identity_like", lambda: pp.identity_like(X), [X]),
             ("jacrev", lambda: pp.func.jacrev(user_log)(X), [X]), ("tensor", lambda: X.tensor(), [X]), ("clone+index", lambda: X[0:1].clone(), [X])]
    for name, fn, args in calls:
        before = [t.detach().clone() for t in args]
        try:
            fn()
        except Exception:
            out.probe("monitor1:call-failed:" + name)
            continue            # an API call failing is other properties' business
        out.probe("monitor:api-call")
        for b, t in zip(before, args):
            if not torch.equal(b, t.detach()):
                raise Violation("C06.mutation", "LieTensor API call '%s' (%s, batch %d%s) changed the values of one of its "
                                "tensor arguments" % (name, fam, n, ", strided arguments" if strided else ""), i, "mutation:" + name)
        _gaps_clean(name, i)


def _api_monitor2(seed, i, fam, n, out):
    """Second monitor list: conversion, geometry, spline, metric and linear-algebra helpers of the public API."""
    from .optmodels import rand_grp
    dt = torch.float64
    strided = (rng.H(seed, "layout2", i) % 2 == 1)
    del _BASES[:]
    if strided:
        out.probe("monitor:strided-args")
    g = lambda name, shape, sc=1.0: _lay(rng.randn(seed, ("m2", i, name), shape, dt, sc), strided)
    X = _lay(rand_grp(seed, ("m2X", i), (n,), fam, dt), strided)
    R3 = _lay(rand_grp(seed, ("m2R", i), (n,), "SO3", dt), strided)
    T = _lay(rand_grp(seed, ("m2T", i), (n,), "SE3", dt), strided)
    S = _lay(rand_grp(seed, ("m2S", i), (n,), "Sim3", dt), strided)
    Xu = pp.LieTensor(X.tensor() * 1.5, ltype=X.ltype)          # un-normalised quaternion part for quat2unit
    traj = rand_grp(seed, ("m2traj", i), (8,), "SE3", dt)
    traj2 = rand_grp(seed, ("m2traj2", i), (8,), "SE3", dt)
    st1 = torch.arange(8, dtype=dt) * 0.1
    st2 = torch.arange(8, dtype=dt) * 0.1 + 0.05
    A = g("A", (n, 3, 3)); v = g("v", (n, 3)); w = g("w", (n, 3))
    pts = g("pts", (12, 3)); pts2 = g("pts2", (12, 3))
    K = torch.tensor([[300., 0, 160], [0, 300., 120], [0, 0, 1]], dtype=dt)
    front = pts.clone(); front[:, 2] = front[:, 2].abs() + 2
    pix = g("pix", (12, 2), 50.0); depth = g("depth", (12,)).abs() + 1
    eul = g("eul", (n, 3), 0.5)
    M3 = R3.matrix(); M4 = T.matrix(); MS = S.matrix()
    # special values: a point at infinity (w = 0), an all-zero initial guess, exact zeros in vectors
    hinf = pp.cart2homo(pts).clone(); hinf[0, -1] = 0.0; hinf[1, -1] = 1e-320
    Mspd = A[0] @ A[0].mT + 3 * torch.eye(3, dtype=dt); rhs = g("rhs", (3, 1)); x0 = torch.zeros(3, 1, dtype=dt)
    vz = v.clone(); vz[0] = 0.0
    Mrect = g("Mrect", (5, 3)); rhs5 = g("rhs5", (5, 1))
    s45 = 0.5 ** 0.5
    gim = pp.LieTensor(torch.tensor([[0.0, -s45, 0.0, -s45], [0.0, s45, 0.0, -s45], [0.0, s45, 0.0, s45]], dtype=dt), ltype=pp.SO3_type)
    gimT = pp.LieTensor(torch.cat([torch.zeros(3, 3, dtype=dt), gim.tensor()], dim=-1), ltype=pp.SE3_type)
    class _Lin(pp.module.NLS):
        def state_transition(self, x, u, t=None): return 0.9 * x + u
        def observation(self, x, u, t=None): return x
    Ppsd = torch.diag(torch.tensor([1.0, 0.0, 0.5], dtype=dt)); xk = g("xk", (3,)); Qk = torch.eye(3, dtype=dt) * 0.1
    def ukf_call():
        return pp.module.UKF(_Lin(), Qk, Qk)(xk, xk * 1.1, xk * 0.0, Ppsd)
    # composite calls: tensors handed to a constructor or a setter and the calls that follow on the same object
    Alti = g("Alti", (1, 3, 3), 0.4); Blti = g("Blti", (1, 3, 2)); Clti = torch.eye(3, dtype=dt).unsqueeze(0); Dlti = torch.zeros(1, 3, 2, dtype=dt)
    Mq = g("Mq", (5, 5)); Qlq = (Mq @ Mq.mT + torch.eye(5, dtype=dt)).repeat(1, 4, 1, 1); plq = g("plq", (1, 4, 5))
    x0lq = g("x0lq", (1, 3)); u0lq = g("u0lq", (1, 4, 2))
    def lqr_nominal():
        return pp.module.LQR(pp.module.LTI(Alti, Blti, Clti, Dlti), Qlq, plq, 4)(x0lq, u_traj=u0lq)
    def mpc_nominal():
        return pp.module.MPC(pp.module.LTI(Alti, Blti, Clti, Dlti), Qlq, plq, 4, stepper=pp.utils.ReduceToBason(steps=3))(1, x0lq, u_init=u0lq)
    tgrid = torch.arange(5, dtype=torch.int64)
    def clock_then_call():
        sy = pp.module.LTI(Alti[0], Blti[0], Clti[0], Dlti[0])
        sy.systime = tgrid[2]
        sy(x0lq[0], u0lq[0, 0]); sy(x0lq[0], u0lq[0, 1]); sy.reset(); sy.reset(tgrid[3]); sy(x0lq[0], u0lq[0, 0])
        return sy.systime
    ip, iv = g("ip", (3,)), g("iv", (3,)); ir = pp.LieTensor(R3.tensor()[0].clone(), ltype=pp.SO3_type)
    idt, igy, iac = torch.full((6, 1), 0.01, dtype=dt), g("igy", (6, 3)), g("iac", (6, 3))
    def imu_from_caller_tensors():
        im = pp.module.IMUPreintegrator(pos=ip, rot=ir, vel=iv, reset=False).double()
        im(idt[:3], igy[:3], iac[:3]); return im(idt[3:], igy[3:], iac[3:])
    idt0 = idt.clone(); idt0[2] = 0.0                       # a duplicated time stamp: one exact zero among the intervals
    def imu_zero_interval():
        im = pp.module.IMUPreintegrator(pos=ip, rot=ir, vel=iv, reset=False).double()
        return im(idt0, igy, iac)
    # a controller that is stepped with caller-owned loss tensors, reset and used again
    l0, l1, l2 = g("l0", ()).abs() + 3, g("l1", ()).abs() + 2, g("l2", ()).abs() + 1
    lb0, lb1 = g("lb0", (3,)).abs() + 3, g("lb1", (3,)).abs() + 1
    def stepper_reuse():
        sp = pp.utils.ReduceToBason(steps=4, patience=2, decreasing=1e-3)
        sp.step(l0); sp.step(l1); sp.reset(); sp.step(l2); sp.continual(); sp.reset()
        sb = pp.utils.ReduceToBason(steps=4, patience=2, decreasing=1e-3)
        sb.step(lb0); sb.step(lb1); sb.reset(); sb.step(lb0)
    # a filter whose noise covariances are given at construction, used, re-tuned through the setter and used again
    Rtiny = torch.diag(torch.tensor([1e-8, 1e-3, 1e-12], dtype=dt))       # a very accurate sensor
    Q2, R2 = torch.eye(3, dtype=dt) * 0.3, torch.eye(3, dtype=dt) * 0.2
    Q1, R1 = torch.eye(3, dtype=dt) * 0.1, torch.eye(3, dtype=dt) * 0.05
    def retune(cls):
        def run():
            f = cls(_Lin(), Q1, R1)
            f(xk, xk * 1.1, xk * 0.0, Ppsd + Qk)
            f.set_uncertainty(Q=Q2, R=R2)
            f(xk, xk * 1.1, xk * 0.0, Ppsd + Qk)
            f.set_uncertainty(Q=Q1)
            return f(xk, xk * 1.1, xk * 0.0, Ppsd + Qk)
        return run
    depth_bad = depth.clone(); depth_bad[0] = 0.0; depth_bad[1] = -1.0        # "no return" pixels
    ulo, uhi = torch.full((1, 4, 2), -0.05, dtype=dt), torch.full((1, 4, 2), 0.05, dtype=dt)
    def lqr_bounded():
        return pp.module.LQR(pp.module.LTI(Alti, Blti, Clti, Dlti), Qlq, plq, 4)(x0lq, u_traj=u0lq, u_lower=ulo, u_upper=uhi)
    class _Convex(torch.nn.Module):         # a locally convex kernel (second derivative > 0): the case Triggs exists for
        def forward(self, x): return x + 0.05 * x * x
    Jtr = g("Jtr", (n * 3, 4))
    calls = [
        ("pixel2point:invalid-depth", lambda: pp.pixel2point(pix, depth_bad, K), [pix, depth_bad, K]),
        ("LQR:bounds+nominal", lqr_bounded, [Alti, Blti, Qlq, plq, x0lq, u0lq, ulo, uhi]),
        ("Triggs:convex-kernel", lambda: pp.optim.corrector.Triggs(_Convex())(R=v, J=Jtr), [v, Jtr]),
        ("FastTriggs:J", lambda: pp.optim.corrector.FastTriggs(pp.optim.kernel.Cauchy(0.5))(R=v, J=Jtr), [v, Jtr]),
        ("IMU:zero-interval", imu_zero_interval, [ip, iv, ir, idt0, igy, iac]),
        ("ReduceToBason:step-reset-step", stepper_reuse, [l0, l1, l2, lb0, lb1]),
        ("EKF:retuned-between-steps", retune(pp.module.EKF), [Q1, R1, Q2, R2, xk, Ppsd]),
        ("UKF:retuned-between-steps", retune(pp.module.UKF), [Q1, R1, Q2, R2, xk, Ppsd]),
        ("PF:retuned-between-steps", retune(pp.module.PF), [Q1, R1, Q2, R2, xk, Ppsd]),
        ("PF:accurate-sensor", lambda: pp.module.PF(_Lin(), Qk, Rtiny)(xk, xk * 1.1, xk * 0.0, Ppsd + Qk, R=Rtiny), [Rtiny, Qk, xk]),
        ("EKF:accurate-sensor", lambda: pp.module.EKF(_Lin(), Qk, Rtiny)(xk, xk * 1.1, xk * 0.0, Ppsd + Qk, R=Rtiny), [Rtiny, Qk, xk]),
        ("UKF:accurate-sensor", lambda: pp.module.UKF(_Lin(), Qk, Rtiny)(xk, xk * 1.1, xk * 0.0, Ppsd + Qk, R=Rtiny), [Rtiny, Qk, xk]),
        ("LQR:nominal", lqr_nominal, [Alti, Blti, Qlq, plq, x0lq, u0lq]), ("MPC:nominal", mpc_nominal, [Alti, Blti, Qlq, plq, x0lq, u0lq]),
        ("System:systime-then-calls", clock_then_call, [tgrid, x0lq, u0lq]),
        ("IMU:constructor-tensors-then-forward", imu_from_caller_tensors, [ip, iv, ir, idt, igy, iac]),
        ("euler:gimbal-lock", lambda: gim.euler(), [gim]), ("euler:gimbal-lock:SE3", lambda: gimT.euler(), [gimT]),
        ("UKF:semidefinite-prior", ukf_call, [Ppsd, xk, Qk]),
        ("EKF:step", lambda: pp.module.EKF(_Lin(), Qk, Qk)(xk, xk * 1.1, xk * 0.0, Ppsd + Qk), [Ppsd, xk, Qk]),
        ("homo2cart:w=0", lambda: pp.homo2cart(hinf), [hinf]),
        ("CG", lambda: pp.optim.solver.CG()(Mspd, rhs), [Mspd, rhs]),
        ("CG:x0=zeros", lambda: pp.optim.solver.CG()(Mspd, rhs, x=x0), [Mspd, rhs, x0]),
        ("CG:x0", lambda: pp.optim.solver.CG()(Mspd, rhs, x=rhs.clone() * 0.1), [Mspd, rhs]),
        ("Cholesky", lambda: pp.optim.solver.Cholesky()(Mspd, rhs), [Mspd, rhs]),
        ("PINV", lambda: pp.optim.solver.PINV()(Mrect, rhs5), [Mrect, rhs5]),
        ("LSTSQ", lambda: pp.optim.solver.LSTSQ()(Mrect, rhs5), [Mrect, rhs5]),
        ("vec2skew:zeros", lambda: pp.vec2skew(vz), [vz]), ("bmv:zeros", lambda: pp.bmv(A, vz), [A, vz]),
        ("kernel:Huber", lambda: pp.optim.kernel.Huber(0.5)(vz.square().sum(-1)), [vz]),
        ("FastTriggs", lambda: pp.optim.corrector.FastTriggs(pp.optim.kernel.Huber(0.5))(R=v, J=g("Jc", (n * 3, 4))), [v]),
        ("quat2unit", lambda: pp.quat2unit(Xu), [Xu]),
        ("mat2SO3", lambda: pp.mat2SO3(M3), [M3]), ("mat2SE3", lambda: pp.mat2SE3(M4), [M4]),
        ("mat2Sim3", lambda: pp.mat2Sim3(MS), [MS]), ("from_matrix", lambda: pp.from_matrix(M4, pp.SE3_type), [M4]),
        ("euler2SO3", lambda: pp.euler2SO3(eul), [eul]), ("euler", lambda: R3.euler(), [R3]),
        ("bmv", lambda: pp.bmv(A, v), [A, v]), ("bvv", lambda: pp.bvv(v, w), [v, w]), ("bvmv", lambda: pp.bvmv(v, A, w), [v, A, w]),
        ("vec2skew", lambda: pp.vec2skew(v), [v]),
        ("cart2homo", lambda: pp.cart2homo(pts), [pts]), ("homo2cart", lambda: pp.homo2cart(pp.cart2homo(pts)), [pts]),
        ("point2pixel", lambda: pp.point2pixel(front, K), [front, K]), ("pixel2point", lambda: pp.pixel2point(pix, depth, K), [pix, depth, K]),
        ("reprojerr", lambda: pp.reprojerr(front, pix, K), [front, pix, K]),
        ("knn", lambda: pp.knn(pts, pts2, k=2), [pts, pts2]), ("svdtf", lambda: pp.svdtf(pts, pts2), [pts, pts2]),
        ("svdstf", lambda: pp.svdstf(pts, pts2), [pts, pts2]),
        ("nbr_filter", lambda: pp.nbr_filter(pts, 1, 2.0), [pts]), ("voxel_filter", lambda: pp.voxel_filter(pts, [0.5, 0.5, 0.5]), [pts]),
        ("knn_filter", lambda: pp.knn_filter(pts, 2), [pts]), ("random_filter", lambda: pp.random_filter(pts, 4), [pts]),
        ("chspline", lambda: pp.chspline(pts, 0.25), [pts]), ("bspline", lambda: pp.bspline(traj, 0.25), [traj]),
        ("geodesic_loss", lambda: pp.geodesic_loss(traj, traj2), [traj, traj2]),
        ("ape", lambda: pp.metric.ape(st1, traj, st1, traj2), [st1, traj, traj2]),
        ("ape:offset", lambda: pp.metric.ape(st1, traj, st2, traj2, offset=-0.05, diff=0.02), [st1, st2, traj, traj2]),
        ("ape:align", lambda: pp.metric.ape(st1, traj, st1, traj2, align=True, scale=True), [st1, traj, traj2]),
        ("rpe", lambda: pp.metric.rpe(st1, traj, st1, traj2), [st1, traj, traj2]),
        ("rpe:offset", lambda: pp.metric.rpe(st1, traj, st2, traj2, offset=-0.05, diff=0.02), [st1, st2, traj, traj2]),
        ("ICP", lambda: pp.module.ICP(stepper=pp.utils.ReduceToBason(steps=3))(pts.unsqueeze(0), pts2.unsqueeze(0)), [pts, pts2]),
    ]
    for name, fn, args in calls:
        before = [t.detach().clone() for t in args]
        try:
            fn()
        except Exception:
            out.probe("monitor2:call-failed:" + name)   # whether the call works at all is other properties' business;
                                                        # its arguments must be untouched either way
        out.probe("monitor:api-call")
        for b, t in zip(before, args):
            if not torch.equal(b, t.detach()):
                raise Violation("C06.mutation", "public function '%s' changed the values of one of its tensor arguments%s" %
                                (name, " (strided arguments)" if strided else ""), i, "mutation:" + name)
        _gaps_clean(name, i)


def _foreign_plan(o):
    import importlib
    from ..core import runner
    eng = importlib.import_module(runner.ENGINES[o["engine"]])
    fplan = eng.generate(o["seed"], "quick", o["prop"])
    if o.get("keep") is not None:
        keep = set(o["keep"])
        fplan["ops"] = [q for q in fplan["ops"] if q["id"] in keep]
    return fplan


def _foreign(o, out):
    """One run of another simulator's workload (its own plan generator, its own driver code, the real library) in a
    forked child in which the public surface of pypose is wrapped by the boundary monitor.  The other simulator's
    oracles are not consulted here (they belong to other properties); the verdict is the monitor's alone."""
    import importlib
    from ..core import runner, boundary
    from ..core.outcome import Outcome
    from ..core.trace import Trace
    eng = importlib.import_module(runner.ENGINES[o["engine"]])
    fplan = _foreign_plan(o)

    def child():
        mon = boundary.install()
        fo, ftr = Outcome(), Trace()
        torch.manual_seed(rng.H(fplan.get("seed", 0), "torch-global") & 0x7FFFFFFF)
        ended = "ok"
        try:
            eng.execute(fplan, o["prop"], fo, ftr)
        except BaseException as e:
            if isinstance(e, (MemoryError, SystemExit)):
                raise
            ended = type(e).__name__
        mon.active = False
        mon.end()
        return {"ended": ended, "calls": len(mon.calls), "recorded": len(mon.reg), "findings": mon.findings[:5],
                "kinds": sorted(set(c_.split(" ")[0] for c_ in mon.calls))[:40]}
    r_ = _forked(child)
    if "harness" in r_:
        raise RuntimeError("foreign workload child: " + r_["harness"])
    out.probe("foreign:" + o["engine"])
    out.probe("boundary-calls", r_["calls"])
    out.probe("boundary-recorded-arguments", r_["recorded"])
    if r_["ended"] not in ("ok",):
        out.probe("foreign:ended-by:" + ("Violation" if r_["ended"] == "Violation" else "exception"))
    for k_ in r_["kinds"]:
        out.sigs.add("boundary|" + k_)
    if r_["findings"]:
        label, k, where = r_["findings"][0]
        raise Violation("C06.mutation", "workload of %s (%s): the tensor handed to %s (boundary call #%d) had other values %s; "
                        "%d such change(s) in this run" % (o["engine"], o["prop"], label, k, where, len(r_["findings"])),
                        o["id"], "mutation:boundary:%s:%s" % (o["engine"], label.split(" ")[0]))
    return r_


def _check_after(out, o, what):
    left = _patch_state()
    if left:
        # put things back so that the rest of this process is not poisoned by the finding itself
        _restore_all()
        raise Violation("C06.patches", "%s: PyTorch internals still patched after the region was left: %s" % (what, left),
                        o["id"], "patches:" + (o.get("fault") or {}).get("kind", "none"))
    h = _health()
    if h:
        raise Violation("C06.health", "%s: %s" % (what, h), o["id"], "health")


def _run_once(thunk, out, inj=None):
    """Returns ('ok', result) or ('raised', exception type name)."""
    try:
        res = inj.run(thunk) if inj is not None else thunk()
        return "ok", res
    except BaseException as e:
        if isinstance(e, (MemoryError, SystemExit)):
            raise
        return "raised", type(e).__name__


def _site_probe(out, inj):
    fn = inj.site[0]
    if fn.startswith(REPO_PP):
        out.probe("inject:pypose-frame")
    elif os.path.realpath(fn) == HERE:
        out.probe("inject:user-frame")
    elif os.sep + "torch" + os.sep in fn:
        out.probe("inject:torch-frame")
    else:
        out.probe("inject:other-frame")
    out.sigs.add("site|%s:%d" % (os.path.basename(fn), inj.site[1]))


def _forked(fn):
    """Run fn() in a forked child and return its JSON-able result (mode B: an exception thrown into the middle
    of functorch's own bookkeeping may poison torch for the rest of the process; that is torch's business)."""
    rd, wr = os.pipe()
    pid = os.fork()
    if pid == 0:
        code = 0
        try:
            os.close(rd)
            try:
                res = fn()
            except BaseException as e:          # harness trouble inside the child
                res = {"harness": "%s: %s" % (type(e).__name__, e)}
            with os.fdopen(wr, "w") as f:
                f.write(json.dumps(res))
        finally:
            os._exit(code)
    os.close(wr)
    with os.fdopen(rd) as f:
        data = f.read()
    os.waitpid(pid, 0)
    if not data:
        return {"harness": "child died without a result"}
    return json.loads(data)


def execute(plan, prop, out, tr):
    c, s = plan["config"], plan["seed"]
    fam, n = c["fam"], c["n"]
    _warm()
    if _patch_state():
        raise RuntimeError("patched before the run started (leak from an earlier run in this worker)")
    reuse_cache = {}
    tr.ev("plan", c)
    for o in plan["ops"]:
        i = o["id"]
        BOMB.count, BOMB.at, BOMB.exc = 0, None, None
        if o["op"] == "foreign":
            r_ = _foreign(o, out)
            tr.ev("foreign", i, o["engine"], o["prop"], r_["calls"], r_["recorded"], r_["ended"])
            _check_after(out, o, "foreign workload")
            out.ops += 1
            continue
        if o["op"] in ("api", "api2") and os.environ.get("PPSIM_NO_API_MONITORS"):
            continue        # experiment switch: how much does the boundary monitor see on its own
        if o["op"] == "api2":
            _api_monitor2(s, i, fam, n, out)
            _check_after(out, o, "api monitor 2")
            out.ops += 1
            continue
        if o["op"] == "api":
            _api_monitor(s, i, fam, n, out)
            _check_after(out, o, "api monitor")
            out.ops += 1
            continue
        thunk, args = _make_thunk(o, fam, n, s, reuse_cache)
        before = [t.detach().clone() for t in args]
        f = o.get("fault")
        depth = o.get("depth", 1)
        if depth >= 2:
            out.probe("nested>=2")
        if o["op"] == "reuse":
            out.probe("reused-wrapper")
        if o["op"] == "reuse_inside":
            out.probe("reused-wrapper-inside-context")
        what = "op %d (%s%s)" % (i, o["op"], ", fault %s" % json.dumps(f) if f else "")
        if f is None:
            st, res = _run_once(thunk, out)
            tr.ev("op", i, o["op"], st, res if st == "raised" else None)
            _check_after(out, o, what)
        elif f["kind"] == "user-raise":
            BOMB.at, BOMB.exc = f["at"], f["exc"]
            st, res = _run_once(thunk, out)
            fired = BOMB.count >= f["at"]
            BOMB.at = None
            if fired:
                out.fault("user-function-raise")
                out.probe("user-raise")
                if not issubclass(EXC[f["exc"]], Exception):
                    out.probe("user-raise:BaseException")
            out.probe("op-raised" if st == "raised" else "op-completed-despite-fault")
            tr.ev("op", i, o["op"], st, res if st == "raised" else None, fired)
            _check_after(out, o, what)
            out.sigs.add("user-raise|%s|%s|%s" % (o["op"], f["exc"], f["at"]))
        else:
            mode = f["mode"]
            # counting pass: how many line events does the region have (deterministic for fixed code)
            cnt = Injector(mode)
            st0, _ = _run_once(thunk, out, cnt)
            K = cnt.n
            out.sim_time += K
            _check_after(out, o, what + " [counting pass]")
            if K == 0:
                out.declined("C06.inject(no line event in region)")
                continue
            ks = [1 + int(f["frac"] * K)] if not f.get("all") else (list(range(1, K + 1)) if mode == "A" else
                                                                      list(range(1, K + 1, max(1, K // 60))))
            if f.get("all") and mode == "A":
                out.probe("enumerated-all-k")
            for k in ks:
                k = min(k, K)
                if mode == "A":
                    inj = Injector(mode, k, f["exc"])
                    st, res = _run_once(thunk, out, inj)
                    if inj.fired:
                        out.fault("injected-exception-modeA"); _site_probe(out, inj)
                    out.probe("op-raised" if st == "raised" else "op-completed-despite-fault")
                    tr.ev("inj", i, o["op"], k, K, st, res if st == "raised" else None, list(inj.site) if inj.site else None)
                    _check_after(out, o, what + " [k=%d of %d, site %s]" % (k, K, inj.site))
                else:
                    def child(k=k):
                        inj = Injector("B", k, f["exc"])
                        st, res = _run_once(thunk, None, inj)
                        return {"st": st, "res": res if st == "raised" else None, "fired": inj.fired,
                                "site": list(inj.site) if inj.site else None, "left": _patch_state(), "health": None if _patch_state() else _health_safe()}
                    r_ = _forked(child)
                    out.probe("mode-B-fork")
                    if "harness" in r_:
                        raise RuntimeError("mode B child: " + r_["harness"])
                    if r_["fired"]:
                        out.fault("injected-exception-modeB")
                        class _S: pass
                        s_ = _S(); s_.site = tuple(r_["site"]); _site_probe(out, s_)
                    out.probe("op-raised" if r_["st"] == "raised" else "op-completed-despite-fault")
                    tr.ev("injB", i, o["op"], k, K, r_["st"], r_["res"], r_["site"])
                    if r_["left"]:
                        raise Violation("C06.patches", "%s [k=%d of %d, site %s]: PyTorch internals still patched after the "
                                        "region was left: %s" % (what, k, K, r_["site"], r_["left"]), i, "patches:inject")
                    # the health of torch itself after an exception inside torch frames is not pypose's business
                out.ops += 1
        for b, t in zip(before, args):
            if not torch.equal(b, t.detach()):
                raise Violation("C06.mutation", "%s changed the values of one of its tensor arguments" % what, i, "mutation:op")
        out.ops += 1
        out.sigs.add("op|%s|%s|%s" % (o["op"], (f or {}).get("kind", "none"), (f or {}).get("mode", "")))
    out.nontrivial = any("fault" in o for o in plan["ops"])


def _health_safe():
    try:
        return _health()
    except BaseException as e:
        return "health probe raised %s" % type(e).__name__


def describe(prop):
    return {
        "level": "fault_enumeration",
        "rule": "one run = 1-8 operations from {pp.func.jacrev over 5 user functions on LieTensor arguments, `with retain_ltype()` "
                "around vmap / jacfwd / jacrev, nesting depth 2-3, one jacrev wrapper reused 2-5 times, plain torch.func calls, "
                "API non-mutation monitor} on SO3/SE3/RxSO3/Sim3 batches; faults: the user function raises on its j-th "
                "invocation (8 exception types incl. BaseException subclasses), or the injector raises at the k-th line event "
                "inside the wrapped region (mode A: pypose and user frames, in-process; mode B: any frame incl. torch / stdlib, "
                "in a forked child); k = 1 + floor(frac * K) with K counted by a fault-free traced pass; in the thorough tier 4% "
                "of runs enumerate every k (mode A) / a stride of K/60 (mode B); after every operation the three patched "
                "attributes must be the identical objects recorded at import; distinct = distinct injection sites (file:line) "
                "and (operation, fault kind, mode) combinations; non-trivial = the run injected at least one fault",
        "fault_kinds": ["user-function-raise", "injected-exception-modeA (pypose/user frames)", "injected-exception-modeB (any frame, forked)"],
        "real": ["pypose.retain_ltype", "pypose.func.jacrev", "torch.func.jacrev / vmap / jacfwd and their internals", "LieTensor "
                 "operations and __torch_function__", "everything the other simulators run for real (controllers, IMU integrator, "
                 "systems, LQR / MPC, filters, GN / LM), under the boundary monitor"],
        "stub": ["wrapped user functions", "sys.settrace exception injector", "fork wrapper for mode B",
                 "boundary wrappers around pypose's public callables (only inside the forked child of a 'foreign' operation)"],
        "assumptions": ["the wrapped region is the dynamic extent of pypose.func.jac's wrapper_fn / of the with-body; the context "
                        "manager's own enter/exit code is not 'inside the wrapped function' and is not injected",
                        "retain_ltype's permanent rewrite of _add_batch_dim.__module__ and the stray attribute `wrapper` left on "
                        "pypose.lietensor.lietensor by nested use are not part of the oracle",
                        "the broadcasting / view-transparency clause of C06 is not decided; the non-mutation clause is decided "
                        "by three monitors: the LieTensor API list (contiguous and strided arguments, gaps of the strided base "
                        "checked), the list of public helpers and composite calls, and the boundary monitor (core/boundary.py): "
                        "the workloads of ctrlsim / imusim / clocksim / lqrsim / filtersim / optsim executed in a forked child "
                        "with every public callable of pypose outside pypose.lietensor wrapped; tensors in the arguments of a "
                        "call entered from harness code are recorded with a copy and compared on return, at every later "
                        "boundary call and at the end of the run; nn.Parameter arguments and names ending in '_' are exempt"],
    }
