"""lqrsim -- C14: repeated LQR / MPC solves on one shared system object under clock jumps and
interleaved system calls, against a dense condensed-QP reference.

Real code: LQR (lqr_backward, lqr_forward), MPC.forward, runsys, toBTN, ReduceToBason, LTI, LTV, NLS, bmv, bvmv.
Stubs: the concrete systems (random LTI; LTV with stacked matrices indexed by systime % N as in the class
documentation; a time-invariant smooth NLS) and the cost data.
"""
import numpy as np
import torch
import pypose as pp

from ..core import rng, refmath, boundary
from ..core.outcome import Violation
from .clocksim import StackedLTV, PropLTV

NAME = "lqrsim"
SIM_UNIT = "horizon steps solved"
BUDGET = {"quick": {"runs": 8000, "wall": 80}, "thorough": {"runs": 60000, "wall": 1500}}
ISOLATE = "chunk"       # every chunk of runs in a forked child of a pristine worker: what a run sees of the process is a
                        # deterministic function of the runs before it in the same chunk (see runner.run_history_iso)
CHUNK = 64
SHRINK_LISTS = ("ops",)
PROBES = {"C14": ["second-solve", "solve-at-stale-clock", "solve-after-jump", "solve-after-syscall", "ltv", "lti",
                  "ns=1", "batch>1", "T=1", "u:none", "u:zeros", "u:random", "u:prev", "u:prev-shifted-in-place", "x_init:non-contiguous", "x_init:expanded", "x_init:zero", "x_init:view-of-previous-plan", "solve:no_grad", "solve:split-backward-forward", "u:random-far", "two-lqr-share-system",
                  "mpc-linear", "mpc-nonlinear", "nls-time-dependent", "mpc-nonmonotone", "unstable-A", "cond>1e4", "system:deepcopied", "dt!=1", "p=0", "Q/p:mixed-forms", "ltv:property-only", "ltv:periodic-within-horizon", "u:prev-perturbed"]}
import os
TS = float(os.environ.get("PPSIM_TOLSCALE", "1"))
TOL_FEAS = 1e-11 * TS       # relative
TOL_COST = 1e-11 * TS
TOL_OPT = 1e-9 * TS        # relative to the cost scale; multiplied by sqrt(cond) below


def generate(seed, tier, prop="C14"):
    r = rng.stream(seed, "config")
    kind = r.choice(["LTI", "LTV", "LTV", "NLS"])
    ns, nc = r.randint(1, 6), r.randint(1, 6)
    if r.random() < 0.15:
        ns = 1
    T = r.choice([1, 2, 3, 4, 5, 8, 12, 20]) if r.random() < 0.8 else r.randint(1, 20)
    B = r.choice([1, 1, 2, 3])
    if kind == "NLS":
        B, T, ns, nc = 1, min(T, 8), min(ns, 4), min(nc, 3)
    cfg = {"kind": kind, "ns": ns, "nc": nc, "T": T, "B": B, "N": T + r.choice([0, 0, 1, 3]),
           "rho": r.choice([0.5, 0.9, 1.0, 1.3]), "logcond": r.choice([0, 1, 2, 4, 6]), "c1": r.random() < 0.7,
           "Qtv": r.random() < 0.5, "two": r.random() < 0.25, "h": r.choice([0.2, 0.2, 1.0, 2.5]),
           "a": r.choice([0.0, 0.0, 0.5, 0.9]), "deepcopy_sys": r.random() < 0.2,
           "dt": r.choice([1, 1, 0.05, 2]) if kind == "LTI" else 1, "pzero": r.random() < 0.12}
    cfg["ptv"] = cfg["Qtv"] if r.random() < 0.65 else (not cfg["Qtv"])
    cfg["prop_ltv"] = kind == "LTV" and r.random() < 0.3
    if kind == "LTV" and r.random() < 0.3:
        cfg["periodic"] = True; cfg["N"] = r.choice([2, 3])      # a periodic system: the matrices repeat within the horizon
    ro = rng.stream(seed, "ops")
    ops = []
    n = ro.randint(1, 8 if tier == "thorough" else 6)
    for i in range(n):
        x = ro.random()
        if i == 0 or x < 0.55:
            o = {"id": i, "op": "solve", "lqr": ro.randint(0, 1) if cfg["two"] else 0,
                 "u": ro.choice(["none", "zeros", "random", "random-far", "prev", "prev-shifted-in-place", "prev-perturbed"]),
                 "how": ro.choice(["call", "call", "call", "no_grad", "split"])}
            if kind == "NLS" or (B == 1 and ro.random() < 0.15):      # MPC: single batch, as documented
                o["op"] = "mpc"
        elif x < 0.62 and kind in ("LTI", "LTV"):
            o = {"id": i, "op": "model-update"}
        elif x < 0.7:
            o = {"id": i, "op": "syscall", "k": ro.randint(1, 3)}
        elif x < 0.85:
            o = {"id": i, "op": "reset", "t": ro.choice([0, 1, 2, T, T + 1, 2 * T])}
        else:
            o = {"id": i, "op": "settime", "t": ro.choice([0, 1, T - 1, T, 3 * T + 1])}
        ops.append(o)
    if ops[-1]["op"] not in ("solve", "mpc"):
        ops.append({"id": n, "op": "solve" if kind != "NLS" else "mpc", "lqr": 0, "u": ro.choice(["none", "random"])})
    return {"engine": NAME, "seed": seed, "config": cfg, "ops": ops}


def brief(plan):
    return {"config": plan["config"], "ops": [o["op"] + (":" + o["u"] if "u" in o else "") +
                                               (":%s" % o["t"] if "t" in o else "") for o in plan["ops"]]}


def simplify(plan):
    c = plan["config"]
    cands = []
    for k, v in (("B", 1), ("T", 2), ("T", 1), ("ns", 1), ("ns", 2), ("nc", 1), ("logcond", 0), ("rho", 0.5),
                 ("c1", False), ("Qtv", False), ("ptv", False), ("prop_ltv", False), ("two", False), ("a", 0.0), ("h", 0.2), ("dt", 1), ("pzero", False), ("deepcopy_sys", False)):
        if c.get(k) != v and not (k in ("T",) and c["kind"] == "LTV" and v > c["N"]):
            cc = dict(c, **{k: v})
            if k == "T":
                cc["N"] = max(v, 1)
            cands.append({**plan, "config": cc})
    for i, o in enumerate(plan["ops"]):
        if o.get("u") not in (None, "none"):
            ops = list(plan["ops"]); ops[i] = dict(o, u="none"); cands.append({**plan, "ops": ops})
        if o["op"] == "mpc" and c["kind"] != "NLS":
            ops = list(plan["ops"]); ops[i] = dict(o, op="solve"); cands.append({**plan, "ops": ops})
    return cands


class SmoothNLS(pp.module.NLS):
    """Smooth system x' = x + h (1 + a sin(0.5 t)) (tanh(x W1^T) W2^T + u W3^T), y = x; a = 0 is time-invariant.
    The horizon index is the time: LQR linearises at t = 0..T-1, so step k of a solve is f(., ., k)."""
    def __init__(self, W1, W2, W3, h=0.2, a=0.0):
        super().__init__()
        self.W1, self.W2, self.W3, self.h, self.a = W1, W2, W3, h, a

    def gain(self, t):
        if t is None or self.a == 0.0:
            return self.h
        tt = torch.as_tensor(t).to(self.W1.dtype).reshape(-1)[0]
        return self.h * (1 + self.a * torch.sin(0.5 * tt))

    def state_transition(self, x, u, t=None):
        return x + self.gain(t) * (torch.tanh(x @ self.W1.mT) @ self.W2.mT + u @ self.W3.mT)

    def observation(self, x, u, t=None):
        return x


def _spd(seed, name, n, logcond, dt):
    M = rng.randn(seed, (name, "M"), (n, n), dt)
    Qm, _ = torch.linalg.qr(M)
    ev = torch.logspace(0, -float(logcond), n, dtype=dt) if n > 1 else torch.ones(1, dtype=dt)
    return (Qm * ev) @ Qm.mT


def execute(plan, prop, out, tr):
    c, s = plan["config"], plan["seed"]
    kind, ns, nc, T, B = c["kind"], c["ns"], c["nc"], c["T"], c["B"]
    nsc = ns + nc
    dt = torch.float64
    tr.ev("plan", c)
    N = max(1, c["N"]) if c.get("periodic") else max(c["N"], T)
    if c.get("periodic") and kind == "LTV" and N < T:
        out.probe("ltv:periodic-within-horizon")
    # ---- system
    if kind == "NLS":
        W1 = rng.randn(s, ("W1",), (ns, ns), dt, 0.6); W2 = rng.randn(s, ("W2",), (ns, ns), dt, 0.6)
        W3 = rng.randn(s, ("W3",), (ns, nc), dt)
        sysm = SmoothNLS(W1, W2, W3, c.get("h", 0.2), c.get("a", 0.0))
        if c.get("a", 0.0):
            out.probe("nls-time-dependent")
        out.probe("mpc-nonlinear", 0)
    else:
        st = (N,) if kind == "LTV" else ()
        A = rng.randn(s, ("A",), (B,) + st + (ns, ns), dt)
        # scale to the requested spectral radius
        rad = torch.linalg.eigvals(A).abs().amax(-1).clamp_min(1e-3)
        A = A * (c["rho"] / rad)[..., None, None]
        Bm = rng.randn(s, ("B",), (B,) + st + (ns, nc), dt)
        C = torch.eye(ns, dtype=dt).expand((B,) + st + (ns, ns)).clone()
        D = torch.zeros((B,) + st + (ns, nc), dtype=dt)
        c1 = rng.randn(s, ("c1",), (B,) + st + (ns,), dt) if c["c1"] else None
        if kind == "LTI":
            sysm = pp.module.LTI(A, Bm, C, D, c1, None); out.probe("lti")
        elif c.get("prop_ltv"):
            # the second pattern of the LTV documentation: matrices and constant terms exist only as properties computed
            # from the time; nothing is stored in the parent class
            sysm = PropLTV({"A": A, "B": Bm, "C": C, "D": D, "c1": c1, "c2": None}, N); out.probe("ltv"); out.probe("ltv:property-only")
        else:
            sysm = StackedLTV(A, Bm, C, D, c1, None, N); out.probe("ltv")
        if c["rho"] > 1:
            out.probe("unstable-A")
    if c.get("deepcopy_sys"):
        # the solver works on a snapshot of the system object (a copy made after the original has been used once)
        import copy as _copy
        if kind != "NLS":
            sysm(rng.randn(s, ("warm-x",), (B, ns), dt), rng.randn(s, ("warm-u",), (B, nc), dt))
        sysm = _copy.deepcopy(sysm)
        out.probe("system:deepcopied")
    if kind != "NLS" and isinstance(sysm, PropLTV):
        A, Bm, c1 = sysm.mats["A"], sysm.mats["B"], sysm.mats["c1"]
    elif kind != "NLS":
        A, Bm, c1 = sysm._A, sysm._B, sysm._c1      # the live buffers of the system the solvers will use
    if ns == 1:
        out.probe("ns=1")
    if B > 1:
        out.probe("batch>1")
    if T == 1:
        out.probe("T=1")
    if c["logcond"] >= 4:
        out.probe("cond>1e4")
    # ---- costs and solver objects
    lqrs, costs = [], []
    handed_costs = []       # (tensor handed to a constructor, ..., pristine copies): cost data stays the caller's
    ptv = c.get("ptv", c["Qtv"])       # Q and p each in the per-step or the shared form, independently
    if ptv != c["Qtv"]:
        out.probe("Q/p:mixed-forms")
    for j in range(2 if c["two"] else 1):
        if c["Qtv"]:
            Qh = torch.stack([torch.stack([_spd(s, "Q%d_%d_%d" % (j, b, t), nsc, c["logcond"], dt) for t in range(T)])
                              for b in range(B)])
            Q = Qh
        else:
            Qh = torch.stack([_spd(s, "Q%d_%d" % (j, b), nsc, c["logcond"], dt) for b in range(B)])
            Q = Qh.unsqueeze(1).expand(B, T, nsc, nsc)
        if ptv:
            ph = rng.randn(s, ("p", j), (B, T, nsc), dt) * (0.0 if c.get("pzero") else 1.0)
            p = ph
        else:
            ph = rng.randn(s, ("p", j), (B, nsc), dt) * (0.0 if c.get("pzero") else 1.0)
            p = ph.unsqueeze(1).expand(B, T, nsc)
        lq = pp.module.LQR(sysm, Qh, ph, T)
        lqrs.append(lq); costs.append((Q.clone(), p.clone()))
        handed_costs.append((Qh, ph, Qh.clone(), ph.clone()))
    if c["two"]:
        out.probe("two-lqr-share-system")
    mpc = None
    npd = lambda t: t.detach().double().numpy()

    def horizon_mats(b):
        As, Bs, cs = [], [], []
        for t in range(T):
            if kind == "LTV":
                tn = t % N
                As.append(npd(A[b, tn])); Bs.append(npd(Bm[b, tn])); cs.append(npd(c1[b, tn]) if c1 is not None else np.zeros(ns))
            else:
                As.append(npd(A[b])); Bs.append(npd(Bm[b])); cs.append(npd(c1[b]) if c1 is not None else np.zeros(ns))
        return As, Bs, cs

    clock = 0
    dtv = c.get("dt", 1)        # the sampling interval argument: for a time-invariant system it must not change anything
    if dtv != 1:
        out.probe("dt!=1")
    if c.get("pzero"):
        out.probe("p=0")
    prev_u = {}
    prev_obj = {}
    kept = []               # (x, u) tensors returned earlier, with pristine copies: they are the caller's now
    n_solves = 0
    dirty = None
    for o in plan["ops"]:
        i, op = o["id"], o["op"]
        if op == "syscall":
            for k in range(o["k"]):
                sysm(rng.randn(s, ("sx", i, k), (B, ns) if kind != "NLS" else (1, ns), dt),
                     rng.randn(s, ("su", i, k), (B, nc) if kind != "NLS" else (1, nc), dt))
            dirty = "syscall"; out.fault("interleaved-system-call", o["k"]); out.ops += 1
            continue
        if op == "model-update":
            # system identification between solves: the model's matrices are refreshed in place
            if kind in ("LTI", "LTV"):
                with torch.no_grad():
                    A.mul_(0.9).add_(0.1 * rng.randn(s, ("updA", i), tuple(A.shape), dt))
                    Bm.add_(0.3 * rng.randn(s, ("updB", i), tuple(Bm.shape), dt))
                boundary.refresh(A, Bm)
                out.fault("model-updated-in-place"); out.ops += 1
            continue
        if op == "reset":
            sysm.reset(o["t"]); dirty = "jump"; out.fault("clock-jump"); out.ops += 1
            continue
        if op == "settime":
            sysm.systime = o["t"]; dirty = "jump"; out.fault("clock-jump"); out.ops += 1
            continue
        # ---- a solve
        j = o.get("lqr", 0) if (len(lqrs) > 1 and op != "mpc") else 0
        Q, p = costs[j]
        x0 = rng.randn(s, ("x0", i), (B, ns), dt)
        if rng.H(s, "x0zero", i) % 11 == 0:
            x0 = x0 * 0.0                        # start exactly at the origin
            out.probe("x_init:zero")
        if i % 3 == 1:
            xb_ = torch.zeros(B, 2 * ns, dtype=dt); xb_[:, ::2] = x0; x0 = xb_[:, ::2]     # non-contiguous initial state
            out.probe("x_init:non-contiguous")
        elif i % 3 == 2 and B > 1:
            x0 = x0[:1].expand(B, ns)                                                       # one initial state for the whole batch
            out.probe("x_init:expanded")
        uk = o.get("u", "none")
        if uk == "zeros":
            u0 = torch.zeros(B, T, nc, dtype=dt)
        elif uk == "random":
            u0 = rng.randn(s, ("u0", i), (B, T, nc), dt)
        elif uk == "random-far":
            u0 = rng.randn(s, ("u0", i), (B, T, nc), dt, 1e3)       # a nominal far from the optimum
        elif uk == "prev" and j in prev_u:
            u0 = prev_u[j].clone()
        elif uk == "prev-perturbed" and j in prev_u:
            u0 = prev_u[j].clone() + 1e-4 * rng.randn(s, ("upert", i), (B, T, nc), dt)      # a warm start close to the last plan
        elif uk == "prev-shifted-in-place" and j in prev_obj and op != "mpc":
            # receding horizon: the very tensor the last solve returned, shifted by one step in place
            u0 = prev_obj[j]
            kept[:] = [k_ for k_ in kept if k_[1] is not u0]      # the harness itself rewrites this tensor now
            if T > 1:
                u0[:, :-1] = u0[:, 1:].clone()
            u0[:, -1] = rng.randn(s, ("ushift", i), (B, nc), dt)
            boundary.refresh(u0)
        else:
            u0, uk = None, "none"
        out.probe("u:" + uk)
        how = o.get("how", "call") if op == "solve" else "call"
        if how == "no_grad" and kept and kept[-1][0].shape[-1] == ns and kept[-1][0].shape[0] == B:
            x0 = kept[-1][0][:, 1, :]               # receding horizon: a VIEW of the previous plan is the next initial state
            out.probe("x_init:view-of-previous-plan")
        t_at = int(sysm.systime)
        if n_solves:
            out.probe("second-solve")
        if t_at != 0:
            out.probe("solve-at-stale-clock")
        if dirty == "jump":
            out.probe("solve-after-jump")
        if dirty == "syscall":
            out.probe("solve-after-syscall")
        ctx = "solve #%d (op %d, %s, u_traj=%s, system time %d at entry, %s)" % (n_solves, i, op, uk, t_at, kind)
        keyctx = "%s:%s" % (kind, "first" if (n_solves == 0 and t_at == 0) else "repeat-or-stale")
        x0b, u0b = x0.clone(), (u0.clone() if u0 is not None else None)
        try:
            if op == "mpc":
                if mpc is None:
                    mpc_Q, mpc_p = costs[0][0].clone(), costs[0][1].clone()
                    handed_costs.append((mpc_Q, mpc_p, costs[0][0], costs[0][1]))
                    mpc = pp.module.MPC(sysm, mpc_Q, mpc_p, T,
                                        stepper=pp.utils.ReduceToBason(steps=6, patience=2, decreasing=1e-4))
                x, u, cost = mpc(dtv, x0, u_init=u0)
            elif how == "no_grad":
                with torch.no_grad():
                    x, u, cost = lqrs[j](x0, dtv, u_traj=u0)
                out.probe("solve:no_grad")
            elif how == "split":
                # the two public halves called by hand, the roll-out from another initial state than the backward pass
                xb0 = rng.randn(s, ("xsplit", i), (B, ns), dt)
                K_, k_ = lqrs[j].lqr_backward(xb0, dtv, u0)
                x, u, cost = lqrs[j].lqr_forward(x0, K_, k_)
                out.probe("solve:split-backward-forward")
            else:
                x, u, cost = lqrs[j](x0, dtv, u_traj=u0)
        except Exception as e:
            raise Violation("C14.raises", "%s raised %s: %s" % (ctx, type(e).__name__, str(e)[:300]), i,
                            "raises:%s:ns%s:B%s:T%s" % (kind, "=1" if ns == 1 else ">1", "=1" if B == 1 else ">1",
                                                       "=1" if T == 1 else ">1"))
        n_solves += 1; dirty = None
        out.sim_time += T; out.ops += 1
        for px, pu, pxc, puc, pid in kept:
            if pu is not u0 and (not torch.equal(px, pxc) or not torch.equal(pu, puc)):
                raise Violation("C14.mutation", ctx + ": the trajectory returned by solve op %d was modified by this later solve"
                                % pid, i, "mutation:returned-plan")
        if uk != "prev-shifted-in-place":
            kept.append((x, u, x.detach().clone(), u.detach().clone(), i))
        kept[:] = kept[-3:]
        prev_u[j] = u.detach().clone()
        prev_obj[j] = u
        tr.ev("solve", i, x, u, cost)
        if not torch.equal(x0, x0b) or (u0 is not None and not torch.equal(u0, u0b)):
            raise Violation("C14.mutation", ctx + ": x_init / u_traj modified", i, "mutation")
        for Qg, pg_, Q0_, p0_ in handed_costs:
            if not (torch.equal(Qg, Q0_) and torch.equal(pg_, p0_)):
                raise Violation("C14.mutation", ctx + ": the cost tensors Q / p handed to the LQR / MPC constructor were modified",
                                i, "mutation:cost")
        X, U, Cst = npd(x), npd(u), npd(cost)
        if X.shape != (B, T + 1, ns) or U.shape != (B, T, nc) or Cst.shape != (B,):
            raise Violation("C14.shape", ctx + ": shapes x%s u%s cost%s" % (X.shape, U.shape, Cst.shape), i, "shape")
        Qn, pn = npd(Q), npd(p)
        for b in range(B):
            if not (np.abs(X[b, 0] - npd(x0)[b]).max() <= 0):
                raise Violation("C14.init", ctx + ": x[0] != x_init", i, "init")
            scale = 1 + np.abs(X[b]).max()
            if kind == "NLS":
                with torch.no_grad():
                    nxt = torch.stack([sysm.state_transition(x[b, k_], u[b, k_], torch.tensor(k_)) for k_ in range(T)])
                err = np.abs(npd(nxt) - X[b, 1:]).max()
            else:
                As, Bs, cs = horizon_mats(b)
                err = max(np.abs(As[t] @ X[b, t] + Bs[t] @ U[b, t] + cs[t] - X[b, t + 1]).max() for t in range(T))
            if not (err <= TOL_FEAS * scale * 100):
                raise Violation("C14.feasible", ctx + ": returned trajectory violates x[t+1]=A_t x[t]+B_t u[t]+c1_t "
                                "(t = 0..T-1) by %.3e (scale %.3e), batch item %d" % (err, scale, b), i,
                                "feasible:" + keyctx)
            tau = np.concatenate([X[b, :T], U[b]], axis=-1)
            cc = sum(0.5 * tau[t] @ Qn[b, t] @ tau[t] + pn[b, t] @ tau[t] for t in range(T))
            cs_scale = 1 + sum(abs(0.5 * tau[t] @ Qn[b, t] @ tau[t]) + abs(pn[b, t] @ tau[t]) for t in range(T))
            if not (abs(cc - Cst[b]) <= TOL_COST * cs_scale * 100):
                raise Violation("C14.cost", ctx + ": reported cost %.12g, cost of the returned trajectory %.12g" %
                                (Cst[b], cc), i, "cost:" + keyctx)
            if kind != "NLS":
                try:
                    xr, ur, cstar, cond, costf, gradf, Hs = refmath.lq_reference(As, Bs, cs, Qn[b], pn[b], npd(x0)[b])
                except np.linalg.LinAlgError:
                    # the reduced Hessian is positive definite in exact arithmetic but not numerically (unstable dynamics
                    # over a long horizon): no certificate
                    out.declined("C14.optimal(reduced Hessian not numerically PD)"); continue
                if not np.isfinite(cond) or cond > 1e12:
                    out.declined("C14.optimal(cond>1e12)"); continue
                gap = costf(U[b].reshape(-1)) - cstar
                g = gradf(U[b].reshape(-1))
                gscale = np.abs(Hs).max() * (1 + np.abs(ur).max()) + 1
                cscale = 1 + abs(cstar) + 0.5 * float(ur.reshape(-1) @ Hs @ ur.reshape(-1))
                tol = TOL_OPT * max(1.0, np.sqrt(cond))
                if not (gap <= tol * cscale and np.abs(g).max() <= tol * gscale * 10):
                    raise Violation("C14.optimal", ctx + ": cost of returned inputs exceeds the optimum by %.6g (optimum "
                                    "%.6g, returned %.6g), reduced gradient %.3e, cond %.2e, batch item %d" %
                                    (gap, cstar, gap + cstar, np.abs(g).max(), cond, b), i, "optimal:" + keyctx)
        if op == "mpc":
            out.probe("mpc-nonlinear" if kind == "NLS" else "mpc-linear")
        out.sigs.add("%s|t%s|%s|%s|#%d" % (kind, "0" if t_at == 0 else "T" if t_at == T else "x", uk, op, min(n_solves, 4)))
    out.nontrivial = n_solves > 1 or any(o["op"] in ("reset", "settime", "syscall") for o in plan["ops"])


def describe(prop):
    return {
        "rule": "one run = one system object (LTI batched 1-3; LTV with N>=T stacked matrices indexed by systime % N; "
                "time-invariant smooth NLS, batch 1), state/input dims 1-6, horizon 1-20, spectral radius 0.5-1.3, "
                "cond(Q) up to 1e6, optional c1, time-varying or constant Q/p, 1-2 LQR objects sharing the system, and a "
                "seeded history of <= 8 operations {solve with u_traj none/zeros/random/previous, MPC solve, 1-3 direct "
                "system calls, reset(t), systime=t}; distinct = distinct (system kind, clock class at solve entry, "
                "u_traj kind, solver, solve index); non-trivial = more than one solve or a clock disturbance",
        "fault_kinds": ["clock-jump (reset(t) / systime=t before a solve)", "interleaved-system-call (advances the "
                        "shared clock between solves)"],
        "real": ["pypose.module.LQR", "pypose.module.MPC", "pypose.module.dynamics.runsys / toBTN",
                 "pypose.utils.ReduceToBason", "pypose.module.LTI / LTV / NLS", "pypose.bmv / bvmv"],
        "stub": ["concrete systems and cost data"],
        "assumptions": ["the horizon problem uses A_t, B_t, c1_t for t = 0..T-1 whatever the system counter (as the "
                        "statement says); dt = 1", "float64; optimality certificate abstains when the reduced "
                        "Hessian's condition number exceeds 1e12",
                        "MPC on a nonlinear system: dynamics consistency and cost consistency only"],
    }
