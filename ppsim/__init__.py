"""ppsim -- deterministic simulation with fault injection for pypose (see /verif/DESIGN.md)."""
