#!/bin/bash
# Re-evaluate every seeded change against its property's quick check (no demo, no test suite): detection matrix.
# usage: tools/seeded_all.sh [parallel=3]
cd "$(dirname "$0")/.."
P=${1:-3}
mkdir -p out/seeded
ls -d seeded/C* | xargs -P $P -I{} sh -c 'n=$(basename {}); prop=${n%%-*}; tools/mutant.py {} --props $prop --no-tests --no-demo > out/seeded/$n.json 2>/dev/null; python3 -c "
import json,sys
d=json.load(open(\"out/seeded/$n.json\")); c=d[\"checks\"][\"$prop\"]
print(\"$n\", \"exit\", c[\"exit\"], \"wall\", c[\"wall_s\"], (c[\"first\"] or [c[\"summary\"][-100:]])[0][:140])
"'
