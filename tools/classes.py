#!/venv/bin/python
"""debug helper: run N seeds of a property and print one shrunk example per violation class"""
import sys, os, json
sys.path.insert(0, os.path.dirname(os.path.dirname(os.path.abspath(__file__))))
os.environ.setdefault("PYTHONHASHSEED", "0")
from ppsim.core import env; env.setup()
from ppsim.core import runner, shrink
prop, n = sys.argv[1], int(sys.argv[2])
tier = sys.argv[3] if len(sys.argv) > 3 else "quick"
base = int(os.environ.get("VERIF_SEED", "0"))
eng = runner.engine(runner.PROP_ENGINE[prop])
agg = runner.run_batch(runner.PROP_ENGINE[prop], prop, tier, base, n, 600)
cls = {}
for idx, seed, plan, od in agg["viol"]:
    cls.setdefault((od["oracle"], od["key"]), []).append((idx, seed, plan, od))
for k, v in sorted(cls.items()):
    print("=====", k, len(v))
    c = [x for x in v if x[2] is not None]
    if not c: continue
    idx, seed, plan, od = c[0]
    small, info = shrink.shrink(eng, plan, prop, od["oracle"], max_exec=150, max_wall=40)
    out = runner.run_plan(eng, small, prop)
    print(" idx", idx, "->", out.oracle, out.key, out.detail[:700])
    print(" plan", json.dumps(eng.brief(small)))
for h in agg["harness"][:3]:
    print("HARNESS", h[0], h[3][-1500:])
print("runs", agg["runs"], "ok", agg["ok"], "probes", json.dumps(agg["probes"], sort_keys=True))
