#!/usr/bin/env python3
"""Regenerates /verif/MANIFEST.json.  BUILT lists the properties whose engine exists."""
import json, os, sys
HERE = os.path.dirname(os.path.dirname(os.path.abspath(__file__)))
BUILT = [l.strip() for l in open(os.path.join(HERE, "tools", "built.txt")) if l.strip()]

NA = {
 "C01": "Exp vs matrix exponential is a pure function of x: no state, schedule, clock, peer or fault to simulate; thin parameter bands need targeted input enumeration, a different technique",
 "C02": "Log/Exp round trip is a pure function of X; nothing for a simulator to schedule or fault",
 "C04": "autograd Jacobians are a pure function of (expression tree, evaluation point, cotangent); no history, peer or fault",
 "C05": "Adj/AdjT/Retr/Jinvp/Jr identities are pure functions of (X, a)",
 "C09": "kernel closed forms and corrector identities are pure functions of (R, J, kernel)",
 "C10": "solver / sparse-product correctness is a pure function of (A, b); CG's iteration budget is internal and involves no external event",
 "C11": "matrix / Euler conversions are pure functions of the matrix",
 "C12": "cumulative products are a pure function of the input; the 'schedule' in its text is an index list determined by L (its defect was reached and repaired through C16, whose workload calls cumprod for every length 2..201)",
 "C17": "alignment optimality, ICP and EPnP accuracy are pure functions of the point sets (ICP's loop bound is covered under C20)",
 "C18": "point-cloud filters and camera helpers are pure functions (random_filter reads the RNG but the claim holds per draw)",
 "C19": "splines, APE/RPE and geodesic loss are pure functions; the timestamps in APE/RPE are data, not a clock",
}

CLAIMS = {
 "C20": dict(engine="ctrlsim", design="DESIGN.md §3 C20",
   technique="deterministic simulation: seeded loss/reject/reset histories against a reference automaton; driver loops under solver faults with step caps",
   text="Seeded search over controller configurations and event histories (<=40 events incl. exactly-at-threshold, batched, reset, step-after-stop) checked step by step against a reference automaton written from the statement; bounded liveness of optimize/MPC/ICP loops under an injected failing solver, with the loss stream of the optimize driver evaluated by the harness (not read from the optimizer) and the optimisation continued by a fresh scheduler on the used optimizer. Evidence, not proof: the exhaustive small-alphabet enumeration the property mentions would be model checking.",
   note="Trusted: the reference automaton (30 lines), exact rational arithmetic for threshold decisions; events within 1e3 ulp of a threshold are skipped. StopOnPlateau has no reset(), so the reset clause is decided on ReduceToBason only."),
 "C16": dict(engine="imusim", design="DESIGN.md §3 C16",
   technique="deterministic simulation: one IMU stream fed under seeded fragmentation (chunk boundaries, ranks) against a sequential float64 reference recursion",
   text="Every frame count 1..200 is visited; each stream is fed whole, in PRNG-chosen consecutive chunks (incl. chunks of one frame) with reset=False, and through the (F,H)/(H) ranks; states compared with a sequential reference recursion and across feeding modes; covariance symmetric PSD after every call.",
   note="Trusted: numpy float64 reference recursion and Rodrigues formula in ppsim/core/refmath.py. Gravity removal with integrated rotation is accepted with either end-point rotation of the frame (the statement does not fix it); chunk invariance and rank equivalence are strict."),
 "C15": dict(engine="clocksim", design="DESIGN.md §3 C15",
   technique="deterministic simulation: call/reset/systime/set_refpoint histories with clock-jump faults against an integer-clock + closed-form-Jacobian model",
   text="Histories of <=40 operations on LTI / LTV / generated NLS systems with clock jumps (forward, backward, tensor-valued) injected between operations; after every operation the clock, the outputs and the linearisation A,B,C,D,c1,c2 equal those of the reference model (closed-form Jacobians, no autograd in the oracle).",
   note="Trusted: the generated system family's closed-form Jacobians (numpy). The 'second order' clause is a mathematical consequence of the two checked facts for C2 functions and is not tested numerically."),
 "C14": dict(engine="lqrsim", design="DESIGN.md §3 C14",
   technique="deterministic simulation: repeated LQR/MPC solves on one shared system object under clock jumps and interleaved system calls, against a dense condensed-QP reference",
   text="One system object (LTI / time-indexed LTV / NLS wrapper), 1-2 LQR/MPC objects sharing it, histories of <=8 operations {solve with u_traj None/zeros/random/previous, system calls, reset(t), systime=t}; every solve is checked for initial state, dynamics feasibility, reported cost and an optimality certificate against a float64 Cholesky solve of the condensed problem.",
   note="Trusted: numpy condensed-QP reference; the horizon problem is defined with A_t,B_t,c1_t for t=0..T-1 independent of the system counter (as the statement says). Abstains when the reduced Hessian's condition number exceeds 1e12."),
 "C13": dict(engine="filtersim", design="DESIGN.md §3 C13",
   technique="deterministic simulation: plant + filter + reference Kalman filter in lock-step for up to 50 fed-back steps with seeded noise; PF under a seeded RNG with a 6-sigma band",
   text="The filter's own (x,P) is fed back for up to 50 steps, producing the correlated priors one-shot tests never see; each step is compared with the exact Kalman predict-then-update from the same prior (EKF, UKF any k>-n), covariances symmetric PSD, PF estimate within 6 sigma of the posterior mean of its documented particle model, and, with degenerate weights (outlier measurements), consistent with the best fraction of an independent prior sample; UKF on nonlinear plants for the covariance-validity clause.",
   note="Trusted: numpy Kalman reference; PF band uses an ESS estimate from an independent sample and abstains below 5% ESS."),
 "C08": dict(engine="optsim", design="DESIGN.md §3 C08",
   technique="deterministic simulation: LM/GN step histories with a fault-injecting solver proxy (raise / negate / overshoot / zero / noise) and a recording strategy proxy, against a reference model of the accept/reject loop",
   text="Histories of <=30 step() calls on generated mixed-parameter models; at the solver seam a seeded fault plan decides honest/raise/negate/overshoot/zero/noise per solve; after every call the returned loss, cached loss, restored parameters, trial count and damping transitions are checked against a reference model fed only by what the seams observed.",
   note="Trusted: harness loss (sum of kernel(|r|^2) from the model output, kernel objects trusted), float64 numpy for the step-quality ratio; without kernel and weight the residual handed to the strategy is compared with the harness's own; the damping oracle abstains when the ratio is non-finite or within 1e-9 of a threshold."),
 "C07": dict(engine="optsim", design="DESIGN.md §3 C07",
   technique="deterministic simulation at the solver/strategy seams: every linear system the simulated optimizer hands to the (proxied) solver is compared with a finite-difference reference, trial by trial over fault-driven histories",
   text="Same simulated optimizer as C08 plus a wider fault-free configuration spread (all documented weight shapes, kernels/correctors, solvers incl. CG, clamps that bite, vectorize on/off, starts at / next to a zero residual, data refreshed between calls); each (A,b) seen by the solver proxy equals clampdiag(J^T W J)(1+lambda) / -J^T W R built from a Richardson finite-difference Jacobian in tangent coordinates; k-th-trial recurrence, GN system, honest-solve residual and the retraction update are checked.",
   note="Trusted: finite-difference Jacobian of the real forward ops (float64, abstains when its own error estimate is too large), numpy linear algebra; FastTriggs (also the automatic corrector) is re-computed from closed-form kernel derivatives, the Triggs class is used as a trusted component (C09 is not claimed). The model family covers the documented operator set (Exp, Log, Inv, product, Act on 3- and 4-vectors, Adj, AdjT, Retr, +, matrix(), Jinvp); sim3/Sim3 are excluded where their Jacobians are documented as truncated series. Float64 only. CG steps are judged by CG's documented stopping rule. pypose's own se3/sim3 Exp round-off in the thin bands 0 < theta, |sigma| << 1 is allowed for in the update check (C01's subject)."),
 "C03": dict(engine="groupsim", design="DESIGN.md §3 C03",
   technique="deterministic simulation of long operation histories on one element against a float64 matrix reference model (no fault kind exists on this surface)",
   text="One batched element updated by up to 10^4 mixed @, Inv, add_, +, Retr operations; after every operation matrix(result) equals the reference matrix operation on matrix(operands), accessors equal matrix blocks, Act equals matrix multiplication (3- and 4-vectors incl. w=0), associativity and action-composition probes; unit-norm / positive-scale conservation with a bound linear in history length.",
   note="Trusted: numpy 3x3/4x4 matrix algebra and own scaling-and-squaring expm. Only the 'histories' part of the quantifier is what simulation adds; input-space coverage is what the walk visits."),
 "C06": dict(engine="patchsim", design="DESIGN.md §3 C06", level="fault_enumeration",
   technique="fault injection: exceptions raised by sys.settrace at enumerated/sampled line events inside retain_ltype / func.jacrev regions; identity check of the patched PyTorch internals after every operation; argument non-mutation monitor on the simulated API surface",
   text="Decides the fault clause (patches undone when the wrapped function raises at any point: user-function raise at the j-th invocation incl. BaseException subclasses, injector raise at the k-th line event; nested, reused, has_aux and chunked wrappers; first use inside an active context) by identity comparison of every function of the torch modules pypose patches, and decides argument non-mutation by three monitors: ~35 LieTensor API calls and ~70 public helpers / composite calls with contiguous and strided arguments and special values, and a boundary monitor under which the workloads of the six other simulators run in a forked child with every public callable of pypose outside pypose.lietensor wrapped (tensors handed over by the simulated caller are compared with copies on return, at every later boundary call and at the end of the run). The broadcasting / view-transparency clause is a pure input relation and is NOT decided.",
   note="Trusted: identity (is) snapshot, taken at import, of all functions of torch.autograd.forward_ad, torch._functorch.{eager_transforms,vmap,apis,functional_call}, torch.autograd.functional and torch.func. Every run executes in a forked child; injection inside torch's own frames additionally in a child of that child, because an exception there can poison functorch state, which is torch's business. The non-mutation clause is decided over the calls the lists and the other simulators' workloads make, not over all conceivable call sequences; nn.Parameter arguments and names ending in '_' are exempt."),
}

checks, na = [], []
for pid in ["C%02d" % i for i in range(1, 21)]:
    if pid in NA:
        na.append({"property_id": pid, "reason": "not applicable to deterministic simulation: " + NA[pid]})
    elif pid in BUILT:
        c = CLAIMS[pid]
        checks.append({
            "property_id": pid,
            "quick_cmd": "timeout 900 bin/check %s --tier quick" % pid,
            "thorough_cmd": "timeout 7200 bin/check %s --tier thorough" % pid,
            "evidence_file": "/verif/evidence/%s.json" % pid,
            "replay_cmd_template": "bin/replay {path}",
            "engine": c["engine"],
            "level_claimed": {"category": c.get("level", "exploration"), "text": c["text"], "design_ref": c["design"]},
            "level_note": c["note"],
            "technique": c["technique"],
        })
    else:
        na.append({"property_id": pid, "reason": "applicable (see DESIGN.md §0) but its engine %s is not built yet; not claimed until it is" % CLAIMS[pid]["engine"]})

engines = {}
for pid, c in CLAIMS.items():
    if pid in BUILT:
        engines.setdefault(c["engine"], []).append(pid)
m = {
 "version": 1,
 "setup_cmd": "bin/setup",
 "hooks": {"guard": "PYPOSE_VERIF", "enable": "no hook exists in /repo: every seam is a public constructor argument, a subclassing point or an interpreter facility; checks set PYPOSE_VERIF=1 and import pypose from $VERIF_REPO (default /repo) working tree",
           "baseline_off_cmd": "cd /repo && /venv/bin/python -m pytest -ra -q -p no:cacheprovider --timeout=900 --continue-on-collection-errors",
           "source_commits": [], "add_only": True},
 "engines": [{"name": n, "path": "ppsim/engines/%s.py" % n, "serves_properties": sorted(p),
              "kind_free_text": "seeded deterministic simulator (plan generator + interpreter + reference model + shrinker)"}
             for n, p in sorted(engines.items())],
 "checks": checks,
 "not_applicable": na,
 "notes": "Technique family: deterministic simulation with fault injection. exit 0 = held, exit 1 = VIOLATION line with replay file (a minimised plan, plus a minimised process history when the violation needs earlier runs in the same process), exit 2 = harness error (nothing claimed). VERIF_SEED selects the seed family; VERIF_WORKERS the pool size; VERIF_REPO the tree under test. Fifteen defects of pypose found here were repaired by fix: commits and are listed in known_findings.json with status 'fixed'; 231 independently seeded changes are kept under seeded/ (225 caught, 6 recorded as not caught with the reason in DESIGN.md 8.5).",
}
json.dump(m, open(os.path.join(HERE, "MANIFEST.json"), "w"), indent=1)
print("MANIFEST.json: %d checks, %d not_applicable" % (len(checks), len(na)))
