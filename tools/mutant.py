#!/usr/bin/env python3
"""Evaluate one seeded change against the checks, in a scratch copy of /repo (never in /repo itself).

usage: tools/mutant.py <dir with patch.diff [demo.py meta.json]> [--props C08,C07] [--tier quick] [--no-tests] [--keep]

Steps: copy /repo's working tree to /tmp/ppmut-<pid>, apply the patch, (a) run demo.py on the clean tree and on
the patched tree, (b) run the baseline test suite on the patched tree and compare with BASELINE.json's stable
list, (c) run bin/check for each property with VERIF_REPO pointing at the copy.  Prints one JSON line."""
import argparse, json, os, shutil, subprocess, sys, time, xml.etree.ElementTree as ET

VERIF = os.path.dirname(os.path.dirname(os.path.abspath(__file__)))
PY = "/venv/bin/python"


def sh(cmd, **kw):
    return subprocess.run(cmd, shell=True, capture_output=True, text=True, **kw)


def main():
    ap = argparse.ArgumentParser()
    ap.add_argument("dir")
    ap.add_argument("--props", default="")
    ap.add_argument("--tier", default="quick")
    ap.add_argument("--no-tests", action="store_true")
    ap.add_argument("--no-demo", action="store_true")
    ap.add_argument("--keep", action="store_true")
    ap.add_argument("--seed", default="0")
    a = ap.parse_args()
    d = os.path.abspath(a.dir)
    patch = os.path.join(d, "patch.diff")
    meta = {}
    if os.path.exists(os.path.join(d, "meta.json")):
        try:
            meta = json.load(open(os.path.join(d, "meta.json")))
        except Exception:
            meta = {}
    props = [p for p in (a.props or meta.get("property", "")).split(",") if p]
    scratch = "/tmp/ppmut-%d" % os.getpid()
    res = {"dir": d, "props": props, "tier": a.tier}
    try:
        sh("rm -rf %s && mkdir -p %s && rsync -a --exclude .git /repo/ %s/" % (scratch, scratch, scratch))
        demo = os.path.join(d, "demo.py")
        env0 = dict(os.environ, PYTHONPATH=scratch, PYTHONDONTWRITEBYTECODE="1")
        if os.path.exists(demo) and not a.no_demo:
            r0 = subprocess.run([PY, demo], env=env0, capture_output=True, text=True, timeout=900, cwd="/tmp")
            res["demo_clean_exit"] = r0.returncode
        p = sh("cd %s && patch -p1 --no-backup-if-mismatch < %s" % (scratch, patch))
        res["patch_applied"] = p.returncode == 0
        if p.returncode != 0:
            res["patch_err"] = (p.stdout + p.stderr)[-500:]
            print(json.dumps(res)); return 2
        if os.path.exists(demo) and not a.no_demo:
            r1 = subprocess.run([PY, demo], env=env0, capture_output=True, text=True, timeout=900, cwd="/tmp")
            res["demo_patched_exit"] = r1.returncode
            res["demo_patched_tail"] = (r1.stdout + r1.stderr)[-300:]
        if not a.no_tests:
            x = "/tmp/ppmut-%d.xml" % os.getpid()
            sh("cd %s && PYTHONPATH=%s timeout 1700 %s -m pytest -q -p no:cacheprovider --timeout=900 "
               "--continue-on-collection-errors --junitxml=%s" % (scratch, scratch, PY, x))
            base = json.load(open("/root/.vp/BASELINE.json"))["stable_pass"]
            ok = {}
            try:
                for tc in ET.parse(x).iter("testcase"):
                    ok[tc.get("classname") + "::" + tc.get("name")] = not any(c.tag in ("failure", "error", "skipped") for c in tc)
            except Exception as e:
                res["tests_error"] = str(e)
            res["baseline_broken"] = [n for n in base if not ok.get(n)]
            if os.path.exists(x):
                os.remove(x)
        res["checks"] = {}
        for prop in props:
            t0 = time.time()
            e = dict(os.environ, VERIF_REPO=scratch, VERIF_SEED=a.seed)
            r = subprocess.run(["timeout", "3000", os.path.join(VERIF, "bin", "check"), prop, "--tier", a.tier, "--no-evidence"],
                               env=e, capture_output=True, text=True, cwd=VERIF)
            viol = [l for l in r.stdout.splitlines() if l.startswith("VIOLATION")]
            orac = [l.strip() for l in r.stdout.splitlines() if l.strip().startswith("oracle=")]
            summ = [l for l in r.stdout.splitlines() if l.startswith("summary")]
            res["checks"][prop] = {"exit": r.returncode, "violations": len(viol), "first": orac[:2],
                                   "summary": summ[-1][:300] if summ else (r.stdout + r.stderr)[-600:],
                                   "wall_s": round(time.time() - t0, 1)}
    finally:
        if not a.keep:
            shutil.rmtree(scratch, ignore_errors=True)
    print(json.dumps(res, indent=1))
    return 0


if __name__ == "__main__":
    sys.exit(main())
