#!/usr/bin/env python3
"""Copy confirmed seeded changes from a sub-agent output directory into /verif/seeded/<name>/ (patch.diff, demo.py,
meta.json extended with what was run here).  usage: collect_seeded.py <outdir> <prefix>   e.g. /tmp/wt-out r1"""
import json, os, shutil, sys, glob
out, prefix = sys.argv[1], sys.argv[2]
dst_root = "/verif/seeded"
for d in sorted(glob.glob(os.path.join(out, "C*", "m*"))):
    pid, m = d.split("/")[-2], d.split("/")[-1]
    ev = os.path.join(d, "eval.json")
    if not (os.path.exists(os.path.join(d, "patch.diff")) and os.path.exists(ev)):
        continue
    e = json.load(open(ev))
    if not (e.get("demo_clean_exit") == 0 and e.get("demo_patched_exit") not in (0, None) and e.get("patch_applied")):
        print("skip (not confirmed)", d); continue
    name = "%s-%s-%s" % (pid, prefix, m)
    dst = os.path.join(dst_root, name)
    os.makedirs(dst, exist_ok=True)
    shutil.copy(os.path.join(d, "patch.diff"), dst)
    shutil.copy(os.path.join(d, "demo.py"), dst)
    try:
        meta = json.load(open(os.path.join(d, "meta.json")))
    except Exception:
        meta = {}
    meta["breaks_property"] = pid
    meta["confirmed_here"] = {
        "demo_exit_on_clean_tree": e.get("demo_clean_exit"), "demo_exit_with_change": e.get("demo_patched_exit"),
        "baseline_stable_tests_broken_by_change": e.get("baseline_broken"),
        "how": "tools/mutant.py: scratch copy of /repo under /tmp, patch -p1, demo.py on clean and patched copy, full baseline "
               "pytest on the patched copy compared with BASELINE.json stable_pass, then bin/check <property> --tier quick "
               "with VERIF_REPO=<copy>; copy removed afterwards"}
    meta["checks_at_collection_time"] = {k: {"exit": v["exit"], "violation_lines": v["violations"], "first_oracle": (v["first"] or [""])[0][:300],
                                              "wall_s": v["wall_s"]} for k, v in e.get("checks", {}).items()}
    ab = os.path.join(d, "eval_asbuilt.json")
    if os.path.exists(ab):
        try:
            a = json.load(open(ab))
            meta["checks_before_strengthening"] = {k: {"exit": v["exit"], "violation_lines": v["violations"]} for k, v in a.get("checks", {}).items()}
        except Exception:
            pass
    for extra in ("patch_original.diff",):
        if os.path.exists(os.path.join(d, extra)):
            shutil.copy(os.path.join(d, extra), dst)
            meta["note"] = "patch.diff is the sub-agent's change rebased onto a later fix: commit in /repo; " + extra + " is the file as delivered"
    json.dump(meta, open(os.path.join(dst, "meta.json"), "w"), indent=1)
    print("collected", name, {k: v["exit"] for k, v in e.get("checks", {}).items()})
